"""C16 — a saved and restored scheduler or searcher continues exactly like the original.

Oracle: continuation equality against the trace of an object that was *never* dumped / snapshotted.

Engine ``dill`` (facility ``dill.loads(dill.dumps(scheduler))``, what ``Tuner.save`` does): a generated
vtuner history is run once without any serialisation (run 1: uninterrupted trace = every scheduler API
call with its arguments and its output, plus the action order). Run 2 replays the same action order
(``order`` of VTuner) on a freshly built scheduler and takes ``dill.dumps`` at the step boundaries
(all of them for short histories; k = 0, the first boundary with a paused trial and random others for
long ones). Each snapshot is restored and the restored copy is fed the *recorded* continuation of run 1
(same calls, same arguments, the original determines the event order): every suggestion (flag, trial
id, config) and every decision must equal the uninterrupted one. The first difference is classified
(config repeats an earlier suggestion / jumps ahead = skips / unrelated / start-vs-resume / decision /
raised). Run 2 itself must reproduce run 1 (dumping must not perturb the dumped object).

Facility ``tuner`` (same engine): ``Tuner.save(folder)`` / ``Tuner.load(folder).scheduler`` of a real ``Tuner`` holding
the scheduler and a LocalBackend (the tuner itself is never run), a few histories per scheduler kind.

Engine ``clone`` (facility ``clone_from_state(pickle round trip of get_state())``; RandomSearcher,
GridSearcher): same two-run scheme at the *searcher* API (instance-level wrap of get_config /
on_trial_result / register_pending / remove_case / evaluation_failed / cleanup_pending /
configure_scheduler as made by FIFOScheduler / HyperbandScheduler). The state is pickled AT snapshot
time. The clone is built from a template searcher (a freshly constructed identical one, or the
snapshotted searcher itself), ``configure_scheduler`` is called on it if the original had been configured
before the snapshot, and it is fed the recorded continuation of searcher calls.

Engine ``gpclone`` (GPFIFOSearcher, GPMultiFidelitySearcher; ``clone_from_state`` invalidates the
original): fresh processes. P1 (``python -m stv.props.c16 --child``) produces the uninterrupted scheduler
trace and its action order; P2 (another fresh interpreter) forks one grandchild per restore point k
(same construction order: the GP scheduler is the first one built in that address space), runs the order
to k, takes ``pickle.loads(pickle.dumps(searcher.get_state()))``, ``clone_from_state`` on a template (the
snapshotted searcher itself, or the never-used searcher of a second identically constructed scheduler = what
a restore in another process starts from), puts the clone into the scheduler (``configure_scheduler`` as every
searcher requires before use), continues; traces must be equal to P1's. Read-only probes (model parameters
and GP-model generator state before/after the restore) only refine the mechanism key of a difference.

The global numpy RNG (MOASHA draws from it) is seeded per case, saved with every snapshot and restored
before the restored copy continues.
"""
import contextlib
import copy
import io
import json
import os
import pickle
import random
import subprocess
import sys

from stv import envshim  # noqa: F401
from stv import gen
from stv.obs import Obs, jsonable
from stv.vtuner import Port, SchedRaised, VTuner, make_trial

ID = "C16"
LEVEL = "exploration"
RULE = (
    "case = (engine, kind, seed): engine dill (facility dill.dumps/loads, or Tuner.save/Tuner.load for a few histories "
    "per kind) x scheduler kind (FIFO random/grid, Hyperband stopping/promotion/pasha/"
    "cost_promotion, synchronous Hyperband, DEHB, PBT, REA, MedianStoppingRule, MOASHA, GP-FIFO, MOBSTER, HyperTune), "
    "engine clone x searcher (random +-restrict_configurations +-allow_duplicates +-debug_log; grid +-shuffle "
    "+-allow_duplicates, seed default / from scheduler; option combinations enumerated) hosted by FIFO / Hyperband "
    "stopping / promotion, template fresh / self; engine gpclone (process pairs) x (GP-FIFO, GP multi-fidelity with "
    "gp_multitask / gp_independent) x template fresh / self; each with a generated vtuner history (1-4 workers, arrival "
    "policy, failures, points_to_evaluate none/default/explicit) and restore points k (all prefixes of short "
    "histories; k=0, first paused, random others). Distinct = digest of (kind, facility, event kinds of the history, "
    "restore points); non-trivial = at least one restore point whose continuation contains a compared suggestion."
)
ASSUMPTIONS = [
    "the uninterrupted trace is that of an object never dumped/snapshotted (run 1); snapshots are taken in a second run "
    "that replays run 1's action order and is itself compared with run 1",
    "restored objects are fed the recorded continuation (same calls, same arguments); comparison stops at the first "
    "difference of a restore point",
    "snapshots are taken at vtuner step boundaries (between tuner loop iterations), not between suggest and on_trial_add",
    "process-global generators: only MOASHA (which has no generator of its own) gets NumPy's global state saved with each "
    "snapshot and put back before the restored copy continues; for every other kind the restored copy / the clone "
    "continues with numpy.random and random re-seeded to unrelated values (as after Tuner.load in a new process)",
    "elapsed_time passed by FIFOScheduler to searcher.get_config is wall clock; it is stripped from recorded searcher "
    "calls and replayed as 0.0 (no searcher under test reads it)",
    "clone_from_state: the clone gets configure_scheduler(scheduler) before use iff the snapshotted searcher had been "
    "configured (documented precondition of every searcher)",
    "GP kinds (in-process dill round trip; clone_from_state across fresh processes): ints, categoricals, flags, trial ids "
    "and decisions are compared exactly; float hyperparameters of a suggestion within 1e-6 relative are counted as "
    "roundoff_band and end the comparison of that restore point. Reason (measured): re-running the same uninterrupted "
    "GP history in one process, no serialisation involved, already changes an optimised float by up to ~3e-10 relative "
    "(memory-layout dependent last bits amplified by a few L-BFGS steps). An out-of-band GP difference is a violation only "
    "if the uninterrupted value recomputed on a fresh never-dumped scheduler agrees with the recorded one and not with "
    "the restored one (dill), resp. if the same flow without restore reproduces P1 (gpclone); otherwise it is counted as "
    "gp_difference_not_reproducible",
    "GP clone_from_state writes the model parameters back through set_params (decode/encode): they can lose their last "
    "bits; a difference that is reproduced exactly by applying set_params(model_parameters()) to the uninterrupted "
    "searcher is counted as roundoff_band (amplified), not judged",
    "DEHB is run with as many brackets as rungs and without failures; PASHA with >= 2 rung levels (findings of C04/C05)",
]
CASE_TIMEOUT = 240


def case_timeout(spec):
    return 900 if spec.get("engine") == "gpclone" else CASE_TIMEOUT


SHARD_TIMEOUT = {"quick": 900, "thorough": 5400}

DILL_KINDS = [
    "fifo_random", "fifo_grid", "hb_stopping", "hb_promotion", "hb_pasha", "hb_cost_promotion", "sync_hb", "dehb",
    "pbt", "rea", "median", "moasha",
]
GP_DILL_KINDS = ["gp_fifo", "gp_mobster", "gp_hypertune"]
CLONE_KINDS = ["random", "grid"]
GPCLONE_KINDS = ["gp_fifo", "gp_mf"]
PAUSING = {"hb_promotion", "hb_pasha", "hb_cost_promotion", "sync_hb", "dehb", "gp_mobster", "gp_hypertune"}


def preload():
    import dill  # noqa: F401
    import syne_tune.optimizer.baselines  # noqa: F401
    import syne_tune.optimizer.schedulers  # noqa: F401
    import syne_tune.optimizer.schedulers.median_stopping_rule  # noqa: F401
    import syne_tune.optimizer.schedulers.multiobjective.moasha  # noqa: F401
    import syne_tune.optimizer.schedulers.pbt  # noqa: F401
    import syne_tune.optimizer.schedulers.searchers  # noqa: F401
    import syne_tune.optimizer.schedulers.synchronous  # noqa: F401


def cases(tier, seed):
    out = []
    base = seed * 1000003
    quick = tier == "quick"
    n_pairs = 16 if quick else 200
    for i in range(n_pairs):
        sp = {"engine": "gpclone", "kind": GPCLONE_KINDS[i % 2], "seed": base + 700001 + i * 29}
        # workload patterns and documented non-default search options are enumerated over the pairs, not drawn
        j = i // 2
        sp["variant"] = j
        pat = (["plain", "early_fail", "transfer", "rc", "rc", "early_fail", "transfer", "rc"] if i % 2 == 0 else
               ["plain", "early_complete", "transfer", "early_fail", "early_complete", "rc", "transfer", "rc"])[j % 8]
        if pat != "plain":
            sp[pat] = True
        else:
            sp["subsample"] = True  # small max_size_data_for_model: the state converter down-samples the data
        out.append(sp)
    n_gp = 16 if quick else 200
    for kind in GP_DILL_KINDS:
        for i in range(n_gp):
            sp = {"engine": "dill", "kind": kind, "seed": base + 500009 + i * 31 + GP_DILL_KINDS.index(kind)}
            if i % 4 == 3:
                sp["early_fail"] = True
            elif i % 4 == 2:
                sp["transfer" if kind == "gp_fifo" else "early_complete"] = True
            elif i % 8 == 1 and kind == "gp_mobster":
                sp["transfer"] = True
            out.append(sp)
    n_mf = 14 if quick else 350
    for i in range(n_mf):
        for j, kind in enumerate(DILL_KINDS):
            out.append({"engine": "dill", "kind": kind, "seed": base + 11 + (i * len(DILL_KINDS) + j) * 13})
    # synchronous Hyperband with trial failures: restore points between a failure and the completion of its rung
    for i in range(14 if quick else 300):
        out.append({"engine": "dill", "kind": "sync_hb", "seed": base + 800011 + i * 41, "sync_failures": True})
    # one full Tuner.save / Tuner.load round trip (tuner.py: dill.dump of the Tuner holding the scheduler and a
    # LocalBackend; the tuner is never run, the scheduler is driven by the virtual tuner) per scheduler kind
    for j, kind in enumerate(DILL_KINDS + GP_DILL_KINDS):
        for i in range(1 if quick else 8):
            sp = {"engine": "dill", "kind": kind, "via": "tuner", "seed": base + 900001 + (i * 20 + j) * 37}
            if kind == "sync_hb":
                sp["sync_failures"] = True
            out.append(sp)
    n_cl = 40 if quick else 900
    for i in range(n_cl):
        # option combinations are enumerated, not drawn, so that every variant is explored in every run
        out.append({"engine": "clone", "kind": "random", "seed": base + 300007 + i * 34,
                    "rc": bool(i & 1), "dup": bool(i & 2), "dbg": i % 5 != 4})
        out.append({"engine": "clone", "kind": "grid", "seed": base + 300024 + i * 34,
                    "shuffle": bool(i & 1), "dup": bool(i & 2), "seed_default": bool(i & 4)})
    return out


def floors(tier):
    k = 1 if tier == "quick" else 10
    f = {}
    for kind in DILL_KINDS + GP_DILL_KINDS:
        f[f"rp:dill:{kind}"] = 100 * k
        f[f"rp_k0:dill:{kind}"] = 5 * k
        if kind in PAUSING:
            f[f"rp_paused:dill:{kind}"] = 20 * k
    for kind in DILL_KINDS + GP_DILL_KINDS:
        f[f"rp:tuner:{kind}"] = 1 if tier == "quick" else 20
    f["rp_after_failure:dill:sync_hb"] = 100 * k
    for kind in ("fifo_random", "hb_stopping", "hb_promotion", "hb_pasha", "hb_cost_promotion", "pbt", "median"):
        f[f"rp_after_failure:dill:{kind}"] = 5 * k
    for kind in CLONE_KINDS:
        f[f"rp:clone:{kind}"] = 100 * k
        f[f"rp_k0:clone:{kind}"] = 5 * k
        f[f"rp_paused:clone:{kind}"] = 20 * k
    for rc in (0, 1):
        for dup in (0, 1):
            f[f"rp:clone:random:rc={rc},dup={dup},dbg=1"] = 20 * k
    for sh in (0, 1):
        for dup in (0, 1):
            for sd in (0, 1):
                f[f"rp:clone:grid:shuffle={sh},dup={dup},seed_default={sd}"] = 20 * k
    for kind in GPCLONE_KINDS:
        f[f"rp:gpclone:{kind}"] = 100 * k
        f[f"rp_k0:gpclone:{kind}"] = 3 * k
    f["rp_paused:gpclone:gp_mf"] = 20 * k
    kk = 1 if tier == "quick" else 8
    for name, n in (("transfer_learning", 30), ("early_complete_before_first_rung", 15), ("early_fail", 15),
                    ("allow_duplicates", 30), ("restrict_configurations", 30), ("opt_skip_period", 50),
                    ("opt_skip_init_length", 50), ("no_fantasizing", 5)):
        f[f"rp_with_option:{name}"] = n * kk
    f["rp_in_initial_random_phase_with_restrict_configurations"] = 30 * kk
    f["rp_in_initial_random_phase_with_restrict_configurations_after_a_random_draw"] = 15 * kk
    f["rp_dill_with_brackets_gt1"] = 500 * k
    f["continuations_under_perturbed_global_rng"] = 3000 * k
    f["rp_with_down_sampling_active"] = 8 * kk
    f["rp_with_cached_gaussian"] = 10 * kk
    f["rp_with_odd_num_init_candidates"] = 60 * kk
    f["rp_initial_scoring:thompson_indep"] = 100 * kk
    f["rp_initial_scoring:acq_func"] = 20 * kk
    f["decided:random_generator_state_equal"] = 500 * kk
    f["rp_below_num_init_random_after_first_model_based_suggestion:gpclone"] = 3 * kk
    f["rp_transfer_active_task_below_num_init_random:gpclone"] = 6 * kk
    f["decided:suggestion_equal"] = 8000 * k
    f["decided:decision_equal"] = 20000 * k
    return f


# ------------------------------------------------------------------------------------ generation
def _hb_params(rng, typ):
    while True:
        p = {"type": typ, "mode": rng.choice(["min", "max"])}
        style = rng.choice(["rf", "rf", "inc", "list"])
        if style == "rf":
            p["grace_period"] = rng.randint(1, 3)
            p["reduction_factor"] = rng.choice([2, 3, 4, 2.5])
            p["max_t"] = rng.choice([4, 6, 8, 9, 12, 16])
            if p["max_t"] <= p["grace_period"]:
                continue
        elif style == "inc":
            p["grace_period"] = rng.randint(1, 3)
            p["rung_increment"] = rng.randint(1, 4)
            p["max_t"] = p["grace_period"] + rng.randint(1, 10)
        else:
            max_t = rng.randint(4, 16)
            k = rng.randint(2, min(4, max_t))
            p["rung_levels"] = sorted(rng.sample(range(1, max_t + 1), k))
            p["max_t"] = max_t
        p["brackets"] = rng.choice([1, 2, 2, 3, 4])
        p["rung_system_per_bracket"] = rng.random() < 0.5
        lv = gen.ref_rung_levels(p)
        if typ == "pasha":
            p["brackets"] = 1
            p["rung_system_per_bracket"] = False
            if len(lv) < 2:
                continue  # C04-K1
        if not lv:
            continue
        return p


def _points(rng, space_desc, how):
    """points_to_evaluate: None (default mid-point config), [] or explicit (partially specified) configs."""
    if how == "default":
        return None
    if how == "none":
        return []
    import numpy as np

    space = gen.build_space(space_desc)
    names = [k for k, v in space_desc.items() if v[0] != "const"]
    pts = []
    for _ in range(rng.randint(1, 3)):
        full = {k: jsonable(space[k].sample(random_state=np.random.RandomState(rng.randint(0, 2**31 - 1)))) for k in names}
        if rng.random() < 0.4 and len(names) > 1:
            del full[rng.choice(names)]
        pts.append(full)
    return pts


def _grid_space(rng):
    kinds = ["uniform", "loguniform", "randint", "choice", "finrange", "ordinal"]
    n = rng.randint(1, 3)
    desc = {}
    for i in range(n):
        k = rng.choice(kinds)
        name = f"h{i}"
        if k == "uniform":
            desc[name] = ["uniform", 0.0, rng.choice([1.0, 2.5])]
        elif k == "loguniform":
            desc[name] = ["loguniform", 1e-3, 1.0]
        elif k == "randint":
            lo = rng.randint(0, 3)
            desc[name] = ["randint", lo, lo + rng.randint(1, 6)]
        elif k == "choice":
            desc[name] = ["choice", [f"c{j}" for j in range(rng.randint(2, 3))]]
        elif k == "finrange":
            desc[name] = ["finrange", 0.0, 1.0, rng.randint(2, 3)]
        else:
            desc[name] = ["ordinal", sorted(rng.sample(range(1, 20), rng.randint(2, 3))), "equal"]
    if rng.random() < 0.4:
        desc["const_i"] = ["const", 7]
    return desc


def expand(spec):
    """All generator parameters from the seed; explicit keys of the spec override (reproducers)."""
    rng = random.Random(spec["seed"])
    engine, kind = spec["engine"], spec["kind"]
    p = {"engine": engine, "kind": kind}
    gp = kind.startswith("gp_")
    p["mode"] = rng.choice(["min", "max"])
    p["space"] = gen.small_space(rng, ensure_infinite=True, ordinal_kinds=("equal",))
    p["curves"] = rng.choice(["continuous", "continuous", "ties", "crossing"])
    p["n_workers"] = rng.randint(1, 4)
    p["policy"] = rng.choice(["uniform", "round_robin", "starve", "burst", "eager", "eager"])
    p["max_trials"] = rng.randint(3, 14)
    p["max_events"] = rng.randint(6, 70)
    p["checkpointing"] = rng.random() < 0.6
    p["use_mra"] = False
    p["fail_rate"] = rng.choice([0.0, 0.15, 0.3])
    p["points"] = rng.choice(["default", "default", "none", "explicit"])
    p["max_t"] = rng.randint(1, 4)
    host = None
    if engine == "clone":
        host = rng.choice(["fifo", "fifo", "hb_stopping", "hb_promotion", "hb_promotion"])
        host = spec.get("host", host)
        p["host"] = host
        p["template"] = rng.choice(["fresh", "self"])
        if kind == "random":
            p["rc"] = rng.random() < 0.5
            p["dup"] = rng.random() < 0.4
            p["dbg"] = rng.random() < 0.75
            if rng.random() < 0.35:
                p["space"] = gen.small_space(rng, finite=True, with_const=False, ordinal_kinds=("equal",))
            p["rc_n"] = rng.randint(3, 20)
            if spec.get("dup", p["dup"]):
                # allow_duplicates: the exclusion list only holds configs of failed trials (via config_for_trial_id);
                # that matters when a trial fails and its config can come up again: small candidate set, failures
                p["rc_n"] = rng.randint(3, 8)
                p["fail_rate"] = rng.choice([0.15, 0.3, 0.3])
        else:
            p["shuffle"] = rng.random() < 0.6
            p["dup"] = rng.random() < 0.4
            p["seed_default"] = rng.random() < 0.4
            p["space"] = _grid_space(rng)
            p["num_samples"] = rng.choice([None, 2, 3])
    hb_type = None
    if kind.startswith("hb_"):
        hb_type = kind[3:]
    elif host in ("hb_stopping", "hb_promotion"):
        hb_type = host[3:]
    elif kind in ("gp_mobster", "gp_hypertune", "gp_mf"):
        hb_type = rng.choice(["promotion", "promotion", "stopping"])
        hb_type = spec.get("type", hb_type)
    if hb_type is not None:
        hp = _hb_params(rng, hb_type)
        if kind == "gp_hypertune":
            hp["brackets"] = rng.choice([2, 2, 3])
            hp["rung_system_per_bracket"] = False
        p.update(hp)
        p["use_mra"] = hb_type != "stopping" and rng.random() < 0.5
        if hb_type == "cost_promotion":
            p["curves"] = rng.choice(["continuous", "crossing"])
    if kind == "fifo_grid":
        p["space"] = _grid_space(rng)
        p["shuffle"] = rng.random() < 0.6
        p["dup"] = rng.random() < 0.3
        p["num_samples"] = rng.choice([None, 2, 3])
    if kind == "fifo_random":
        p["dup"] = rng.random() < 0.3
        p["rc"] = rng.random() < 0.3
        p["rc_n"] = rng.randint(3, 20)
        if rng.random() < 0.3:
            p["space"] = gen.small_space(rng, finite=True, with_const=False, ordinal_kinds=("equal",))
    if kind in ("sync_hb", "dehb"):
        R = rng.randint(1, 3)
        levels = sorted(rng.sample(range(1, 10), R))
        sizes = sorted(rng.sample(range(1, 7), R), reverse=True)
        first = [[s, l] for s, l in zip(sizes, levels)]
        if kind == "dehb":
            if sum(sizes) < 3:
                first[0][0] += 3
            p["rungs_first_bracket"] = first
            p["num_brackets"] = R
            p["fail_rate"] = 0.0
            p["support_pause_resume"] = rng.random() < 0.75
        else:
            nb = rng.randint(1, R)
            systems = [first]
            for off in range(1, nb):
                lv = levels[off:]
                sz = sorted(rng.sample(range(1, 7), len(lv)), reverse=True)
                systems.append([[s, l] for s, l in zip(sz, lv)])
            p["bracket_rungs"] = systems
            # failures in rungs that are not yet complete (the failed slot holds NaN until the rung is promoted from):
            # most synchronous histories have them; snapshots are also taken right after every failure
            p["fail_rate"] = rng.choice([0.0, 0.2, 0.3, 0.4])
            if spec.get("sync_failures"):
                p["fail_rate"] = rng.choice([0.2, 0.3, 0.4])
            p["sync_style"] = rng.choice(["custom", "custom", "geometric"])
            if p["sync_style"] == "geometric":
                # integer reduction factors with max level a power of it (C05-K1: rounded level == max level asserts)
                p["grace_period"] = 1
                p["reduction_factor"], levels = rng.choice([(2, [1, 2, 4]), (2, [1, 2, 4, 8]), (3, [1, 3, 9]), (3, [1, 3])])
                p["brackets"] = rng.choice([None, 1, 2])
        p["max_t"] = levels[-1]
        p["use_mra"] = rng.random() < 0.5
        p["n_workers"] = rng.randint(2, 5) if spec.get("sync_failures") else rng.randint(1, 5)
        p["max_trials"] = 10**6
    if kind == "pbt":
        p["max_t"] = rng.randint(3, 9)
        p["population_size"] = rng.randint(2, 4)
        p["perturbation_interval"] = rng.choice([1, 1, 2, 3])
        p["quantile_fraction"] = rng.choice([0.25, 0.5, 0.34])
        p["resample_probability"] = rng.choice([0.0, 0.25, 0.6, 1.0])
        p["n_workers"] = rng.randint(2, 4)
        p["max_trials"] = rng.randint(6, 20)
    if kind == "rea":
        p["population_size"] = rng.randint(2, 5)
        p["sample_size"] = rng.randint(1, 2)
        p["max_t"] = rng.randint(1, 2)
    if kind == "median":
        p["max_t"] = rng.randint(2, 6)
        p["grace_time"] = rng.choice([1, 1, 2])
        p["grace_population"] = rng.randint(1, 4)
        p["running_average"] = rng.random() < 0.5
        p["rank_cutoff"] = rng.choice([0.5, 0.3, 0.7])
    if kind == "moasha":
        p["max_t"] = rng.choice([4, 6, 8, 9])
        p["grace_period"] = rng.randint(1, 2)
        p["reduction_factor"] = rng.choice([2, 3])
        p["brackets"] = rng.choice([1, 1, 2])
        p["fail_rate"] = 0.0
        p["moasha_mode"] = rng.choice(["min", "max", ["min", "max"], ["max", "min"]])
    if gp:
        p["max_trials"] = rng.randint(5, 9)
        p["max_events"] = rng.randint(14, 40)
        p["n_workers"] = rng.randint(1, 3)
        if engine == "gpclone":
            p["max_events"] = rng.randint(18, 32)
        p["space"] = gen.small_space(rng, with_const=rng.random() < 0.3, ensure_infinite=True, ordinal_kinds=("equal",))
        p["gp"] = {
            "num_init_random": rng.randint(1, 3),
            "opt_maxiter": rng.randint(2, 5),
            "opt_nstarts": 1,
            "num_init_candidates": rng.choice([5, 7, 8, 11, 16, 25, 30, 50]),
            "opt_skip_init_length": rng.choice([1, 2, 150]),
            "opt_skip_period": rng.choice([1, 2, 3]),
            "num_fantasy_samples": rng.choice([1, 2, 3, 4]),
        }
        # The local (L-BFGS) optimisation of the acquisition function is stateless, hence irrelevant for restore, but it
        # makes suggestions ill-conditioned: on a flat acquisition surface memory-layout dependent last-bit noise of the
        # gradient decides the search direction (observed: the same never-dumped scheduler suggests h2=29 or h2=30
        # depending on unrelated allocations). Without it a suggestion is the best-scoring of the random candidates.
        p["gp"]["skip_local_optimization"] = True
        if kind in ("gp_mobster", "gp_mf"):
            p["gp"]["model"] = rng.choice(["gp_multitask", "gp_multitask", "gp_multitask", "gp_independent"])
        if engine == "gpclone":
            p["template"] = rng.choice(["fresh", "self"])
            if p["template"] == "fresh" and rng.random() < 0.5:
                # the GP model's own generator (fantasy samples) is not part of get_state (finding C16-F7): without
                # fantasizing it is not drawn from, so the rest of a cross-process restore stays checkable
                p["gp"]["no_fantasizing"] = True
        if kind == "gp_hypertune":
            p["gp"]["hypertune_distribution_num_samples"] = 10
        if kind == "gp_fifo":
            p["max_t"] = 1
        if kind in ("gp_fifo", "gp_mf", "gp_mobster") and rng.random() < 0.3:
            p["gp"]["allow_duplicates"] = True
        if spec.get("early_fail"):
            # a failure among the initial random trials: decides whether the next get_config is still 'random' or
            # already model based (failed trials count), and its config must stay excluded
            p["gp"]["num_init_random"] = rng.randint(2, 3)
            p["fail"] = {str(rng.randint(0, p["gp"]["num_init_random"] - 1)): [0, rng.randint(0, 1)]}
            p["fail_rate"] = 0.0
            p["n_workers"] = rng.randint(1, 2)
        p["rc"] = kind in ("gp_fifo", "gp_mf", "gp_mobster") and rng.random() < 0.25
        p["rc_n"] = rng.randint(12, 30)
        # Thompson-sampling scoring (default) draws one normal per scored candidate from the searcher's generator: an odd
        # number leaves a cached Gaussian in the legacy RandomState; acq_func scoring draws none
        if rng.random() < 0.3:
            p["gp"]["initial_scoring"] = "acq_func"
        if engine == "gpclone" and rng.random() < 0.2 and not spec.get("transfer"):
            p["space"] = gen.small_space(rng, finite=True, with_const=False, ordinal_kinds=("equal",))
        v = spec.get("variant")
        if v is not None:
            p["gp"]["num_init_candidates"] = [5, 8, 7, 16, 11, 50, 25, 30][v % 8]
            # Thompson scoring draws (#candidates x #fantasy columns) normals: odd x odd leaves a cached Gaussian
            p["gp"]["num_fantasy_samples"] = [3, 2, 1, 4][v % 4]
            p["gp"].pop("initial_scoring", None)
            if v % 4 == 3:
                p["gp"]["initial_scoring"] = "acq_func"
            # enumerated (process pairs): every documented option is present in every run
            p["gp"]["opt_skip_period"] = [1, 2, 3][v % 3]
            p["gp"]["opt_skip_init_length"] = [150, 1, 2][(v // 2) % 3]
            p["gp"].pop("allow_duplicates", None)
            if v % 3 == 1:
                p["gp"]["allow_duplicates"] = True
            p["rc"] = bool(spec.get("rc"))
            if p["rc"]:
                # restrict_configurations: a long initial random phase (entries are popped off the list by the internal
                # random searcher), list sizes 5-30, with and without points_to_evaluate; restore points inside that phase
                p["gp"]["num_init_random"] = rng.randint(3, 6)
                p["gp"].pop("allow_duplicates", None)
                p["rc_n"] = rng.randint(5, 30)
                p["points"] = rng.choice(["none", "default", "explicit"])
                p["max_trials"] = max(p["max_trials"], p["gp"]["num_init_random"] + 3)
                p["n_workers"] = rng.randint(1, 3)
                p["fail_rate"] = rng.choice([0.0, 0.0, 0.15])
        if spec.get("subsample"):
            # max_size_data_for_model below the number of observations of the history: the state converter down-samples
            # the data the surrogate model is fitted to
            p["gp"]["max_size_data_for_model"] = rng.randint(3, 5)
            if "model" in p["gp"]:
                p["gp"]["model"] = "gp_multitask"  # gp_independent cannot be restored at all (C16-F6)
            p["gp"]["num_init_random"] = 2
            p["gp"].pop("allow_duplicates", None)
            p["rc"] = False
            p["n_workers"] = rng.randint(1, 2)
            p["max_trials"] = rng.randint(10, 13)
            p["max_events"] = rng.randint(34, 46)
            p["fail_rate"] = 0.0
            if p.get("template") == "fresh":
                p["gp"]["no_fantasizing"] = True  # keep C16-F7 out of these cases
        if spec.get("transfer"):
            # documented transfer-HPO set-up: categorical task attribute, active task, observations of OTHER tasks
            # already in the searcher's state; the active task starts with fewer than num_init_random configs
            p["transfer_cfg"] = {"tasks": ["1", "0", "2"], "active": "1", "n_other": rng.randint(4, 7),
                             "active_space": rng.random() < 0.5,
                             "model": rng.choice(["matern52_product", "matern52_same"])}
            p["gp"]["num_init_random"] = rng.randint(2, 4)
            p["rc"] = False
            p["points"] = rng.choice(["none", "default"])
            # FiniteRange (and its ordinal relatives) 'cannot be used in active_config_space' (documented assertion)
            # and without an explicit active config space constants of config_space trip 'active_config_space[..] not in
            # config_space' (the default active space is config_space itself): no constants, explicit space with max_resource_attr
            p["space"] = {n_: (["uniform", 0.0, 1.0] if d_[0] in ("finrange", "ordinal", "logfinrange") else d_)
                          for n_, d_ in p["space"].items() if d_[0] != "const"}
        if spec.get("early_complete") and kind != "gp_fifo":
            # trials that end before their first rung level: with searcher_data='rungs' they never leave an observation
            # and on_trial_complete cleans up their pending evaluation, so the number of configs known to the searcher
            # can drop below num_init_random again after the first model-based suggestion
            p["grace_period"] = rng.randint(2, 3)
            p["reduction_factor"] = rng.choice([2, 3])
            p["rung_levels"] = None
            p["rung_increment"] = None
            p["max_t"] = rng.choice([8, 9, 12])
            if kind != "gp_hypertune":
                p["brackets"] = 1
            # few trials survive to a rung, the following ones all end early, num_init_random exceeds the survivors: the
            # count of known configs (observed at a rung + pending) crosses num_init_random upwards (pending trials)
            # and downwards (their early end) repeatedly
            surv = rng.randint(1, 2)  # trials 0..surv-1 reach their rung levels, the next ones all end early
            p["gp"]["num_init_random"] = surv + rng.randint(1, 2)
            p["early"] = {str(t): rng.randint(1, p["grace_period"] - 1) for t in range(surv, 40)
                          if t < surv + 8 or rng.random() < 0.5}
            # a suggest with all other workers busy sees exactly num_init_random configs (model based); when two
            # workers are free it sees fewer again
            p["n_workers"] = p["gp"]["num_init_random"] - surv + 1 + (1 if p.get("type") == "stopping" else 0)
            p["fail_rate"] = 0.0
            p["max_trials"] = rng.randint(9, 12)
            p["max_events"] = rng.randint(30, 44)
            p["points"] = rng.choice(["none", "default"])
            p["policy"] = rng.choice(["burst", "round_robin", "uniform", "uniform"])
    for k_, v_ in spec.items():
        if k_ not in ("seed", "engine", "kind") and not k_.startswith("_"):
            p[k_] = v_
    return p


def _restrict_configs(p, seed):
    import numpy as np

    space = gen.build_space(p["space"])
    rs = np.random.RandomState(seed % (2**31))
    names = [k for k, v in p["space"].items()]
    out, seen = [], set()
    for _ in range(p["rc_n"] * 3):
        c = {k: (jsonable(space[k].sample(random_state=rs)) if p["space"][k][0] != "const" else p["space"][k][1]) for k in names}
        key = json.dumps(c, sort_keys=True)
        if key not in seen:
            seen.add(key)
            out.append(c)
        if len(out) >= p["rc_n"]:
            break
    return out


def build(p, seed):
    """Build the scheduler of a case. Returns (scheduler, value_fn, extra_fn)."""
    import numpy as np
    from syne_tune.optimizer.schedulers import FIFOScheduler, HyperbandScheduler

    seed = seed % (2**31 - 1)
    kind, engine = p["kind"], p["engine"]
    space = gen.build_space(p["space"])
    mode = p["mode"]
    prng = random.Random(seed + 77)
    pts = _points(prng, p["space"], p["points"])
    curves = gen.Curves(p["curves"], seed + 1, max(p["max_t"], 1))
    value_fn, extra_fn = curves, None
    so = {"debug_log": False}
    searcher = "random"
    host = p.get("host")
    if engine == "clone":
        if kind == "random":
            so = {"debug_log": bool(p["dbg"]), "allow_duplicates": bool(p["dup"])}
            if p["rc"]:
                so["restrict_configurations"] = _restrict_configs(p, seed + 5)
        else:
            searcher = "grid"
            so = {"shuffle_config": bool(p["shuffle"]), "allow_duplicates": bool(p["dup"])}
            if p.get("num_samples"):
                so["num_samples"] = {k: p["num_samples"] for k, v in p["space"].items() if v[0] in ("uniform", "loguniform", "randint")}
            if p["seed_default"]:
                from syne_tune.optimizer.schedulers.searchers import GridSearcher

                searcher = GridSearcher(space, metric="loss", points_to_evaluate=pts, **so)
                so = None
    if kind == "fifo_grid":
        searcher = "grid"
        so = {"shuffle_config": bool(p["shuffle"]), "allow_duplicates": bool(p["dup"])}
        if p.get("num_samples"):
            so["num_samples"] = {k: p["num_samples"] for k, v in p["space"].items() if v[0] in ("uniform", "loguniform", "randint")}
    if kind == "fifo_random":
        so = {"debug_log": False, "allow_duplicates": bool(p["dup"])}
        if p["rc"]:
            so["restrict_configurations"] = _restrict_configs(p, seed + 5)
    if kind.startswith("gp_"):
        so = dict(p["gp"], debug_log=False)
        if p.get("rc"):
            so["restrict_configurations"] = _restrict_configs(p, seed + 5)
            so["skip_local_optimization"] = True
            so["initial_scoring"] = "acq_func"
            if p["points"] == "explicit":
                # initial points that survive the filter: entries of the list itself
                pts = [dict(c) for c in so["restrict_configurations"][: 1 + seed % 2]]
        searcher = "hypertune" if kind == "gp_hypertune" else "bayesopt"
        tr = p.get("transfer_cfg")
        if tr:
            from syne_tune.config_space import choice as _choice

            active_space = {k_: v_ for k_, v_ in space.items() if p["space"].get(k_, ["const"])[0] != "const"}
            space = dict(space, task_id=_choice(list(tr["tasks"])))
            so.update(transfer_learning_task_attr="task_id", transfer_learning_active_task=tr["active"],
                      transfer_learning_model=tr["model"])
            if tr["active_space"] or p.get("use_mra"):
                so["transfer_learning_active_config_space"] = active_space

    def common(**kw):
        d = dict(searcher=searcher, metric="loss", mode=mode, random_seed=seed)
        if isinstance(searcher, str):
            d["points_to_evaluate"] = pts
            if so is not None:
                d["search_options"] = so
        d.update(kw)
        return d

    hb_type = p.get("type")
    if kind in ("fifo_random", "fifo_grid", "gp_fifo") or host == "fifo":
        sched = FIFOScheduler(space, **common())
    elif hb_type is not None:
        kw = common(resource_attr="epoch", type=hb_type, brackets=p["brackets"],
                    rung_system_per_bracket=p["rung_system_per_bracket"])
        if p["use_mra"]:
            space = dict(space, epochs=p["max_t"])
            kw["max_resource_attr"] = "epochs"
        else:
            kw["max_t"] = p["max_t"]
        for k_ in ("grace_period", "reduction_factor", "rung_increment", "rung_levels"):
            if p.get(k_) is not None:
                kw[k_] = p[k_]
        if hb_type == "cost_promotion":
            kw["cost_attr"] = "cost"
            crng = random.Random(seed + 9)
            cum = []
            for _ in range(64):
                acc, row = 0.0, []
                for _l in range(p["max_t"]):
                    acc += crng.uniform(0.5, 3.0)
                    row.append(acc)
                cum.append(row)
            ckpt = p["checkpointing"]

            def extra_fn(trial_id, level, run_no, vt_):  # noqa: F811
                base = 0.0
                if ckpt and run_no > 0 and vt_.run_start_level > 1:
                    base = cum[trial_id % 64][vt_.run_start_level - 2]
                return {"cost": cum[trial_id % 64][level - 1] - base}

        if kind == "gp_hypertune":
            from syne_tune.optimizer.baselines import HyperTune

            kw.pop("searcher")
            sched = HyperTune(space, **kw)
        else:
            sched = HyperbandScheduler(space, **kw)
    elif kind in ("sync_hb", "dehb"):
        from syne_tune.optimizer.schedulers import synchronous as sy

        kw = dict(metric="loss", mode=mode, resource_attr="epoch", random_seed=seed)
        if p["use_mra"]:
            space = dict(space, epochs=p["max_t"])
            kw["max_resource_attr"] = "epochs"
        else:
            kw["max_resource_level"] = p["max_t"]
        if kind == "sync_hb" and p.get("sync_style") == "geometric":
            sched = sy.SynchronousGeometricHyperbandScheduler(
                space, grace_period=p["grace_period"], reduction_factor=p["reduction_factor"], brackets=p["brackets"],
                points_to_evaluate=pts, **kw)
        elif kind == "sync_hb":
            sched = sy.SynchronousHyperbandScheduler(
                space, bracket_rungs=[[tuple(x) for x in b] for b in p["bracket_rungs"]], points_to_evaluate=pts, **kw)
        else:
            sched = sy.DifferentialEvolutionHyperbandScheduler(
                space, rungs_first_bracket=[tuple(x) for x in p["rungs_first_bracket"]],
                num_brackets_per_iteration=p["num_brackets"], support_pause_resume=p["support_pause_resume"],
                points_to_evaluate=pts, **kw)
    elif kind == "pbt":
        from syne_tune.optimizer.schedulers.pbt import PopulationBasedTraining

        sched = PopulationBasedTraining(
            space, metric="loss", mode=mode, resource_attr="epoch", max_t=p["max_t"], random_seed=seed,
            population_size=p["population_size"], perturbation_interval=p["perturbation_interval"],
            quantile_fraction=p["quantile_fraction"], resample_probability=p["resample_probability"],
            points_to_evaluate=pts)
    elif kind == "rea":
        from syne_tune.optimizer.baselines import REA

        sched = REA(space, metric="loss", mode=mode, population_size=p["population_size"],
                    sample_size=p["sample_size"], random_seed=seed, points_to_evaluate=pts)
    elif kind == "median":
        from syne_tune.optimizer.schedulers.median_stopping_rule import MedianStoppingRule

        inner = FIFOScheduler(space, **common())
        sched = MedianStoppingRule(inner, resource_attr="epoch", running_average=p["running_average"],
                                   grace_time=p["grace_time"], grace_population=p["grace_population"],
                                   rank_cutoff=p["rank_cutoff"])
    elif kind == "moasha":
        from syne_tune.optimizer.schedulers.multiobjective.moasha import MOASHA

        sched = MOASHA(space, metrics=["loss", "cost"], mode=p["moasha_mode"], time_attr="epoch", max_t=p["max_t"],
                       grace_period=p["grace_period"], reduction_factor=p["reduction_factor"], brackets=p["brackets"])
        c2 = gen.Curves("continuous", seed + 3, p["max_t"])

        def value_fn(trial_id, level, config=None):  # noqa: F811
            return {"loss": curves(trial_id, level), "cost": c2(trial_id, level)}
    else:
        raise ValueError(kind)
    if p.get("transfer_cfg"):
        _feed_other_tasks(sched, p, seed)
    return sched, value_fn, extra_fn


def _feed_other_tasks(sched, p, seed):
    """Observations of the non-active tasks enter the searcher's state through its public API
    (``on_trial_result(..., update=True)``), before the history starts."""
    import numpy as np

    tr = p["transfer_cfg"]
    searcher = sched.searcher
    multi_fidelity = p.get("type") is not None
    if multi_fidelity:
        searcher.configure_scheduler(sched)  # needs the resource attribute; the scheduler repeats this at its first suggest
    desc = p["space"]
    space = gen.build_space(desc)
    rs = np.random.RandomState((seed + 13) % (2**31))
    others = [t for t in tr["tasks"] if t != tr["active"]]
    level = int(sched.rung_levels[0]) if multi_fidelity else None
    for i in range(tr["n_other"]):
        cfg = {k: jsonable(space[k].sample(random_state=rs)) for k, v in desc.items() if v[0] != "const"}
        cfg["task_id"] = others[i % len(others)]
        res = {"loss": float(rs.uniform(0.0, 1.0))}
        if multi_fidelity:
            res["epoch"] = level
        searcher.on_trial_result(f"other{i}", cfg, result=res, update=True)


def vtuner_params(p, seed, order=None):
    rng = random.Random(seed + 3)
    fail = dict(p.get("fail") or {})
    if p["fail_rate"] > 0 and not fail and "fail" not in p:
        for tid in range(100):
            if rng.random() < p["fail_rate"]:
                fail[str(tid)] = [rng.choice([0, 0, 1]), rng.randint(0, 2)]
    return {
        "n_workers": p["n_workers"], "max_t": p["max_t"], "metric": "loss", "resource_attr": "epoch",
        "policy": p["policy"], "seed": seed + 2, "max_trials": p["max_trials"], "max_events": p["max_events"],
        "max_resource_attr": "epochs" if p["use_mra"] else None, "checkpointing": p["checkpointing"],
        "fail": fail, "order": order, "pbt_restart_levels": True, "early": dict(p.get("early") or {}),
    }


# ------------------------------------------------------------------------------------ recording
def _norm_out(api, out):
    if api == "suggest":
        if out is None:
            return None
        return [bool(out.spawn_new_trial_id), out.checkpoint_trial_id, None if out.config is None else copy.deepcopy(out.config)]
    if api == "on_trial_result":
        return str(out)
    return None


class RecPort(Port):
    """Port that records every scheduler API call (arguments copied before the call) and its output."""

    def __init__(self, scheduler):
        super().__init__(scheduler)
        self.log = []  # [api, args, out]  out = normalised output or ["raised", ExcType, text]

    def _call(self, api, *a, **k):
        if "trial" in k:
            args = {"trial": [k["trial"].trial_id, copy.deepcopy(k["trial"].config)]}
            if "result" in k:
                args["result"] = copy.deepcopy(k["result"])
        else:
            args = dict(k)
        try:
            out = getattr(self.scheduler, api)(**k)
        except Exception as e:  # noqa: BLE001
            self.log.append([api, args, ["raised", type(e).__name__, repr(e)[:200]]])
            raise SchedRaised(api, e) from e
        self.log.append([api, args, _norm_out(api, out)])
        return out


def _call_recorded(sched, api, args):
    k = {}
    if "trial" in args:
        k["trial"] = make_trial(args["trial"][0], copy.deepcopy(args["trial"][1]))
        if "result" in args:
            k["result"] = copy.deepcopy(args["result"])
    else:
        k = dict(args)
    try:
        return _norm_out(api, getattr(sched, api)(**k))
    except Exception as e:  # noqa: BLE001
        return ["raised", type(e).__name__, repr(e)[:200]]


def _same(a, b):
    if isinstance(a, list) and isinstance(b, list) and a[:1] == ["raised"] and b[:1] == ["raised"]:
        return a[1] == b[1]
    if type(a) is not type(b):
        return False
    return _deep_eq(a, b)


def _deep_eq(a, b):
    """Exact equality of suggestions: same keys, same values, bool/int/float/str kinds not confused."""
    if isinstance(a, dict):
        if not isinstance(b, dict) or a.keys() != b.keys():
            return False
        return all(_deep_eq(a[k], b[k]) for k in a)
    if isinstance(a, (list, tuple)):
        if not isinstance(b, (list, tuple)) or len(a) != len(b):
            return False
        return all(_deep_eq(x, y) for x, y in zip(a, b))
    try:
        return bool(a == b)
    except Exception:  # noqa: BLE001
        return False


BAND_REL = 1e-6


def _in_float_band(a, b):
    """GP kinds only: two suggestions that agree in everything except float entries which agree to a
    relative 1e-6. (Observed noise floor: re-running the *same* uninterrupted GP history in one process, no
    serialisation involved, changes an optimised float hyperparameter by up to ~3e-10 relative - last-bit,
    memory-layout dependent differences of the linear algebra amplified by a few L-BFGS steps; see ASSUMPTIONS.)"""
    if isinstance(a, dict) and isinstance(b, dict):
        return a.keys() == b.keys() and all(_in_float_band(a[k], b[k]) for k in a)
    if isinstance(a, (list, tuple)) and isinstance(b, (list, tuple)):
        return len(a) == len(b) and all(_in_float_band(x, y) for x, y in zip(a, b))
    if isinstance(a, bool) or isinstance(b, bool) or isinstance(a, str) or isinstance(b, str) or a is None or b is None:
        return type(a) is type(b) and a == b
    try:
        fa, fb = float(a), float(b)
    except Exception:  # noqa: BLE001
        return False
    if fa == fb:
        return True
    if float(a).is_integer() and float(b).is_integer() and not (isinstance(a, float) or isinstance(b, float)):
        return False
    return abs(fa - fb) <= BAND_REL * max(abs(fa), abs(fb), 1e-300)


class OrderVTuner(VTuner):
    """VTuner that records the action order it chose (to be replayed through ``order``)."""

    def __init__(self, *a, **k):
        super().__init__(*a, **k)
        self.actions = []
        self.early = {int(t): int(n) for t, n in (self.p.get("early") or {}).items()}

    def do_advance(self, tid):
        """Plan ``early``: {trial: n}: the training script of that trial ends after n reports of its first run
        (legal: a script may finish before max_t) -> on_trial_complete with its last result."""
        vt = self.trials[tid]
        n = self.early.get(tid)
        if n is not None and vt.run_no == 0 and vt.last_result is not None and vt.reports_in_run >= n:
            vt.status = "completed"
            self.running.remove(tid)
            self.events.append(("complete", tid, vt.run_no, vt.last_level))
            self.port.on_trial_complete(vt.trial, dict(vt.last_result))
            return
        return super().do_advance(tid)

    def choose(self):
        a = super().choose()
        if a is not None:
            self.actions.append("s" if a[0] == "suggest" else a[1])
        return a


def _classify(log, j, got, exp):
    """Stable description of the first difference between the restored continuation and the
    uninterrupted trace at call j."""
    api = log[j][0]
    if isinstance(got, list) and got[:1] == ["raised"]:
        return f"raised:{api}:{got[1]}"
    if isinstance(exp, list) and exp[:1] == ["raised"]:
        return f"original_raised_{exp[1]}_restored_did_not:{api}"
    if api == "on_trial_result":
        return f"decision_differs:{exp}->{got}"
    if api == "suggest":
        if got is None:
            return "suggest:None_instead_of_suggestion"
        if exp is None:
            return "suggest:suggestion_instead_of_None"
        if got[0] != exp[0]:
            return "suggest:" + ("start_instead_of_resume" if got[0] else "resume_instead_of_start")
        if got[1] != exp[1]:
            return "suggest:resumed_trial_differs"
        return "suggest:config_differs"
    return f"output_differs:{api}"


def _hp(c):
    return None if c is None else json.dumps(jsonable(c), sort_keys=True, default=repr)


def _config_relation(log, j, cfg):
    key = _hp(cfg)
    earlier = any(e[0] == "suggest" and isinstance(e[2], list) and e[2][:1] != ["raised"] and e[2][0] and _hp(e[2][2]) == key
                  for e in log[:j])
    later = any(e[0] == "suggest" and isinstance(e[2], list) and e[2][:1] != ["raised"] and e[2][0] and _hp(e[2][2]) == key
                for e in log[j + 1:])
    if earlier:
        return "repeats_config_suggested_before"
    if later:
        return "skips_ahead_to_later_config"
    return "unrelated_config"


def _first_diff(log1, log2, band=False):
    for i, (a, b) in enumerate(zip(log1, log2)):
        if band and a[0] == b[0] and _in_float_band(a[1], b[1]) and (_same(a[2], b[2]) or _in_float_band(a[2], b[2])):
            continue
        if a[0] != b[0] or not _deep_eq(a[1], b[1]) or not _same(a[2], b[2]):
            return i
    return None if len(log1) == len(log2) else min(len(log1), len(log2))


def _sample_points(p, rng, n_steps_hint, many):
    """Restore points decided before the run: all k for short histories, else 0 + random others
    (the first boundary with a paused trial is added online)."""
    if "points_k" in p:
        return set(p["points_k"]), False
    if n_steps_hint <= many:
        return None, True
    return {0} | set(rng.sample(range(1, n_steps_hint), many - 2)), False


# ------------------------------------------------------------------------------------ engine dill
def _drive(p, seed, order, snapshot_fn=None, sample=None, all_points=True, wrap=None):
    """Run one history. Returns (vt, port, snaps, sched). ``snapshot_fn(sched) -> blob`` is called at the
    chosen step boundaries *before* the step."""
    import numpy as np

    np.random.seed(seed % (2**32))
    sched, value_fn, extra_fn = build(p, seed)
    ctx = wrap(sched) if wrap is not None else None
    port = RecPort(sched)
    vt = OrderVTuner(port, vtuner_params(p, seed, order), value_fn, extra_fn)
    snaps = []
    first_paused_done = False
    step = 0
    max_events = vt.p["max_events"]
    while vt.n_events < max_events:
        if snapshot_fn is not None:
            n_paused = sum(1 for t in vt.trials.values() if t.status == "paused")
            after_error = bool(vt.events) and vt.events[-1][0] == "error"
            take = all_points or step in sample or (n_paused and not first_paused_done) or after_error
            if take:
                if n_paused:
                    first_paused_done = True
                s = {"k": step, "idx": len(port.log), "paused": n_paused, "running": len(vt.running), "after_error": after_error,
                     "failed": sum(1 for t in vt.trials.values() if t.status == "failed"),
                     "nprs": np.random.get_state(), "ctx_idx": None if ctx is None else len(ctx.log)}
                if p["kind"] == "hb_pasha":
                    s["probe"] = _set_order_probe(sched)
                try:
                    s["blob"] = snapshot_fn(sched)
                except Exception as e:  # noqa: BLE001
                    s["error"] = [type(e).__name__, repr(e)[:300]]
                snaps.append(s)
        if not vt.step():
            break
        step += 1
    return vt, port, snaps, sched, ctx


def _set_order_probe(sched):
    """Read-only probe (mechanism key only): iteration order of the ``set`` objects PASHA iterates over when it
    estimates epsilon (``epoch_to_trials``); pickling does not preserve the iteration order of a set."""
    try:
        out = []
        for rs in sched.terminator._rung_systems:
            e2t = getattr(rs, "epoch_to_trials", None)
            if e2t is None:
                return None
            out.append([[ep, list(v)] for ep, v in sorted(e2t.items())])
        return out
    except Exception:  # noqa: BLE001
        return None


def _has_compared_output(log, idx):
    return any(e[0] in ("suggest", "on_trial_result") for e in log[idx:])


def run_dill(spec, o):
    import dill
    import numpy as np

    p = expand(spec)
    seed = spec["seed"]
    p["_seed"] = seed
    kind = p["kind"]
    via = spec.get("via", "dill")
    fac = f"{via}:{kind}"
    snapshot_fn, restore_fn = dill.dumps, dill.loads
    if via == "tuner":
        snapshot_fn, restore_fn = _tuner_facility()
    sink = io.StringIO()
    with contextlib.redirect_stdout(sink):
        try:
            vt1, port1, _, _, _ = _drive(p, seed, p.get("order"))
        except Exception as e:  # noqa: BLE001  (constructor problems belong to other properties)
            o.count("skipped:construction_raised:" + type(e).__name__)
            o.inconclusive("construction_raised")
            return
        log1 = port1.log
        order = list(vt1.actions)
        rng = random.Random(seed + 41)
        many = 12 if kind.startswith("gp_") else 40
        if via == "tuner":
            many = 8
        sample, all_points = _sample_points(p, rng, len(order), many)
        vt2, port2, snaps, sched2, _ = _drive(p, seed, order, snapshot_fn=snapshot_fn, sample=sample, all_points=all_points)
        d12 = _first_diff(log1, port2.log)
        if d12 is not None and kind.startswith("gp_") and d12 < len(log1) and d12 < len(port2.log) and \
                log1[d12][0] == port2.log[d12][0] and _in_float_band(log1[d12][2], port2.log[d12][2]):
            o.count("roundoff_band")
            o.count("roundoff_band:run2_vs_run1")
            snaps = [s_ for s_ in snaps if s_["idx"] <= d12]
            d12 = None
        if d12 is not None:
            # is it the dumping, or is the history not reproducible at all?
            vt3, port3, _, _, _ = _drive(p, seed, order)
            if _first_diff(log1, port3.log) is None:
                o.violate("dump_leaves_original_unchanged", f"{via}:{kind}:dumps_changes_behaviour_of_dumped_scheduler:" +
                          _classify(log1, min(d12, len(log1) - 1), port2.log[d12][2] if d12 < len(port2.log) else None,
                                    log1[d12][2] if d12 < len(log1) else None),
                          {"first_difference_at_call": d12, "uninterrupted": log1[d12] if d12 < len(log1) else None,
                           "dumped_at_every_step": port2.log[d12] if d12 < len(port2.log) else None})
            else:
                o.inconclusive("history_not_reproducible")
                o.count("history_not_reproducible:" + kind)
        for s in snaps:
            if d12 is not None and s["idx"] > d12:
                o.count("restore_points_dropped_after_run2_difference")
                continue
            _judge_restore_point(o, p, fac, kind, log1, s, restore_fn, np, prefix=via)
    _finish(o, p, fac, vt1, log1, snaps)


def _tuner_facility():
    """Tuner.save / Tuner.load (tuner.py) as snapshot / restore pair. The Tuner (LocalBackend with a dummy entry
    point, never run) is created around the scheduler at the first snapshot; every snapshot goes to its own folder."""
    import tempfile

    from syne_tune import StoppingCriterion, Tuner
    from syne_tune.backend import LocalBackend

    box = {}

    def snapshot(sched):
        if box.get("sched") is not sched:
            ep = os.path.join(envshim.scratch_dir(), "c16_entry_point.py")
            if not os.path.exists(ep):
                with open(ep, "w") as f:
                    f.write("print('never run')\n")
            box["sched"] = sched
            box["tuner"] = Tuner(trial_backend=LocalBackend(entry_point=ep), scheduler=sched,
                                 stop_criterion=StoppingCriterion(max_num_trials_started=10**6), n_workers=4,
                                 save_tuner=False, tuner_name="c16tuner", suffix_tuner_name=False)
        folder = tempfile.mkdtemp(prefix="c16_tuner_", dir=envshim.scratch_dir())
        box["tuner"].save(folder)
        return folder

    def restore(folder):
        from syne_tune import Tuner as T

        return T.load(folder).scheduler

    return snapshot, restore


def _judge_restore_point(o, p, fac, kind, log1, s, restore_fn, np, replay_fn=None, prefix="dill"):
    k, idx = s["k"], s["idx"]
    if "error" in s:
        o.violate("snapshot", f"{prefix}:{kind}:snapshot_raised:{s['error'][0]}", {"k": k, "error": s["error"]})
        return
    if not _has_compared_output(log1, idx):
        o.count("restore_points_with_empty_continuation")
        return
    try:
        R = restore_fn(s["blob"])
    except Exception as e:  # noqa: BLE001
        o.violate("restore", f"{prefix}:{kind}:restore_raised:{type(e).__name__}", {"k": k, "error": repr(e)[:300]})
        return
    gp = kind.startswith("gp_")
    order_changed = s.get("probe") is not None and _set_order_probe(R) != s["probe"]
    if order_changed:
        o.count(f"set_iteration_order_changed_by_round_trip:{fac}")

    def attempt(R_):
        saved, saved_py = np.random.get_state(), random.getstate()
        if kind == "moasha":
            # MOASHA documents no generator of its own: it samples from NumPy's global one, which is environment
            np.random.set_state(s["nprs"])
        else:
            # as after Tuner.load in a new process: the process-global generators are in an unrelated state; anything
            # a scheduler draws from them (instead of from its own, serialised, generator) shows as a divergence
            np.random.seed((p["_seed"] * 7919 + 104729 * (k + 1)) % (2**32))
            random.seed(p["_seed"] * 31 + k + 1)
            o.count("continuations_under_perturbed_global_rng")
        try:
            ns = nd = 0
            for j in range(idx, len(log1)):
                api, args, exp = log1[j]
                got = _call_recorded(R_, api, args)
                if not _same(got, exp):
                    return (j, got, exp), ns, nd
                if api == "suggest":
                    ns += 1
                elif api == "on_trial_result":
                    nd += 1
            return None, ns, nd
        finally:
            np.random.set_state(saved)
            random.setstate(saved_py)

    bad, n_sugg, n_dec = attempt(R)
    if bad is not None and gp:
        if _in_float_band(bad[1], bad[2]):
            o.count("roundoff_band")
            o.count(f"roundoff_band:{fac}")
            bad = None
        else:
            # noise floor of GP numerics in this environment: the uninterrupted value is recomputed on fresh,
            # never-dumped schedulers fed the same calls, once as is and five times under a perturbed memory layout;
            # a genuine restore defect differs from all of them, and they agree with the recorded value
            j = bad[0]
            for rep in range(6):
                prng = random.Random(1000 * rep + j)
                np.random.seed(p["_seed"] % (2**32))
                fresh, _, _ = build(p, p["_seed"])
                keep, base2 = [], None
                for jj in range(0, j + 1):
                    if rep:
                        keep.append(np.empty(prng.randint(1, 3000)))  # semantic-free perturbation of the memory layout
                    base2 = _call_recorded(fresh, log1[jj][0], log1[jj][1])
                if _same(base2, bad[1]) or _in_float_band(base2, bad[1]) or not (_same(base2, bad[2]) or _in_float_band(base2, bad[2])):
                    # the never-dumped scheduler itself produces the restored value / does not reproduce its own value
                    o.count(f"gp_ill_conditioned_suggestion_not_judged:{fac}")
                    bad = None
                    break
    o.count("decided:suggestion_equal", n_sugg)
    o.count("decided:decision_equal", n_dec)
    o.count(f"rp:{fac}")
    if gp:
        for name in _gp_options(p):
            o.count(f"rp_with_option_dill:{name}")
    if k == 0:
        o.count(f"rp_k0:{fac}")
    if s["paused"]:
        o.count(f"rp_paused:{fac}")
    if s["running"]:
        o.count(f"rp_pending:{fac}")
    if s.get("failed"):
        o.count(f"rp_after_failure:{fac}")
    if (p.get("type") is not None and (p.get("brackets") or 1) > 1) or kind == "gp_hypertune":
        o.count("rp_dill_with_brackets_gt1")
        o.count(f"rp_dill_with_brackets_gt1:{kind}")
    if bad is not None:
        j, got, exp = bad
        what = _classify(log1, j, got, exp)
        if order_changed:
            what += ":iteration_order_of_epoch_to_trials_sets_not_preserved"
        o.violate("continuation_equal", f"{prefix}:{kind}:{what}",
                  {"restore_point_k": k, "history_steps": None, "first_difference_at_call": j, "calls_after_restore": j - idx,
                   "call": [log1[j][0], log1[j][1]], "uninterrupted": exp, "restored": got,
                   "relation_to_uninterrupted_trace": _config_relation(log1, j, got[2]) if what == "suggest:config_differs" else None,
                   "paused_at_snapshot": s["paused"], "running_at_snapshot": s["running"]})


def _finish(o, p, fac, vt1, log1, snaps):
    kinds = [e[0] + (":" + str(e[4]) if e[0] == "result" else (":" + str(e[2]) if e[0] == "suggest" else "")) for e in vt1.events]
    for e in vt1.events[-40:]:
        o.ev(*e)
    n_rp = o.counters.get(f"rp:{fac}", 0)
    o.set_sig([fac, kinds, [s["k"] for s in snaps]], nontrivial=n_rp > 0 and any(e[0] == "suggest" for e in vt1.events))
    o.sample = {"facility": fac, "params": {k: v for k, v in p.items() if k not in ("space",)}, "space": p["space"],
                "history_events": len(vt1.events), "restore_points": [s["k"] for s in snaps][:40],
                "restore_points_with_paused": sum(1 for s in snaps if s["paused"]),
                "first_events": [list(e) for e in vt1.events[:10]], "raised": vt1.raised}


# ------------------------------------------------------------------------------------ engine clone (model-free)
SEARCHER_API = ["configure_scheduler", "get_config", "on_trial_result", "register_pending", "remove_case",
                "evaluation_failed", "cleanup_pending"]


class SearcherRec:
    """Instance-level wrap of the public searcher methods a scheduler calls; records (method, args,
    kwargs, output). ``elapsed_time`` (wall clock) is stripped."""

    def __init__(self, sched):
        self.sched = sched
        self.searcher = sched.searcher
        self.log = []
        for name in SEARCHER_API:
            self._wrap(name)

    def _wrap(self, name):
        orig = getattr(self.searcher, name)
        log = self.log

        def wrapper(*a, **k):
            if name == "configure_scheduler":
                ra, rk = ["<scheduler>"], {}
            else:
                ra = copy.deepcopy(list(a))
                rk = copy.deepcopy({x: y for x, y in k.items() if x != "elapsed_time"})
            try:
                out = orig(*a, **k)
            except Exception as e:  # noqa: BLE001
                log.append([name, [ra, rk], ["raised", type(e).__name__, repr(e)[:200]]])
                raise
            log.append([name, [ra, rk], copy.deepcopy(out) if name == "get_config" else None])
            return out

        setattr(self.searcher, name, wrapper)


def _searcher_call(searcher, sched, name, args):
    ra, rk = copy.deepcopy(args[0]), copy.deepcopy(args[1])
    if name == "configure_scheduler":
        ra = [sched]
    elif name == "get_config":
        rk["elapsed_time"] = 0.0
    try:
        out = getattr(searcher, name)(*ra, **rk)
    except Exception as e:  # noqa: BLE001
        return ["raised", type(e).__name__, repr(e)[:200]]
    return copy.deepcopy(out) if name == "get_config" else None


def _clone_flags(p):
    if p["kind"] == "random":
        return f"rc={int(p['rc'])},dup={int(p['dup'])},dbg={int(p['dbg'])}"
    return f"shuffle={int(p['shuffle'])},dup={int(p['dup'])},seed_default={int(p['seed_default'])}"


def _classify_searcher(slog, j, got, exp):
    name = slog[j][0]
    if isinstance(got, list) and got[:1] == ["raised"]:
        return f"raised:{name}:{got[1]}"
    if isinstance(exp, list) and exp[:1] == ["raised"]:
        return f"original_raised_{exp[1]}_clone_did_not:{name}"
    if got is None:
        return "get_config:None_instead_of_config"
    if exp is None:
        return "get_config:config_instead_of_None"
    return "get_config:config_differs"


def _searcher_relation(slog, j, got):
    if not isinstance(got, dict):
        return None
    key = _hp(got)
    earlier = any(e[0] == "get_config" and isinstance(e[2], dict) and _hp(e[2]) == key for e in slog[:j])
    later = any(e[0] == "get_config" and isinstance(e[2], dict) and _hp(e[2]) == key for e in slog[j + 1:])
    return "repeats_config_suggested_before" if earlier else ("skips_ahead_to_later_config" if later else "unrelated_config")


_WATCH = {
    "grid": ["_allow_duplicates", "_shuffle_config", "hp_values_combinations", "hp_keys", "num_samples", "_metric"],
    "random": ["_allow_duplicates", "_rc_returned_pos", "_resource_attr", "_metric", "_config_for_trial_id"],
}


def _immutable_diff(kind, orig, clone):
    """Read-only diagnosis for the mechanism key: which constructor-derived attributes of the clone differ
    from the snapshotted searcher's (for containers whose content is mutable state only the kind is compared)."""
    out = []
    for name in _WATCH[kind]:
        try:
            a, b = getattr(orig, name), getattr(clone, name)
        except AttributeError:
            out.append(name + "?")
            continue
        if name in ("_rc_returned_pos", "_config_for_trial_id"):
            same = type(a) is type(b)
        else:
            same = _deep_eq(a, b)
        if not same:
            out.append(name)
    return ",".join(out) or "nothing"


def run_clone(spec, o):
    import numpy as np

    p = expand(spec)
    seed = spec["seed"]
    kind = p["kind"]
    fac = f"clone:{kind}"
    flags = _clone_flags(p)
    o.count(f"clone_variant:{kind}:{flags}")
    try:
        vt1, port1, _, sched1, rec1 = _drive(p, seed, p.get("order"), wrap=SearcherRec)
    except Exception as e:  # noqa: BLE001
        o.count("skipped:construction_raised:" + type(e).__name__)
        o.inconclusive("construction_raised")
        return
    slog1 = rec1.log
    order = list(vt1.actions)
    rng = random.Random(seed + 41)
    sample, all_points = _sample_points(p, rng, len(order), 40)

    rng_at_snapshot = []

    def snap(sched):
        rng_at_snapshot.append(sched.searcher.random_state.get_state())
        return pickle.dumps(sched.searcher.get_state())

    vt2, port2, snaps, sched2, rec2 = _drive(p, seed, order, snapshot_fn=snap, sample=sample, all_points=all_points,
                                             wrap=SearcherRec)
    d12 = _first_diff(slog1, rec2.log)
    if d12 is not None:
        vt3, port3, _, _, rec3 = _drive(p, seed, order, wrap=SearcherRec)
        if _first_diff(slog1, rec3.log) is None:
            o.violate("snapshot_leaves_original_unchanged", f"clone:{kind}:get_state_changes_behaviour_of_searcher:{flags}",
                      {"first_difference_at_call": d12, "uninterrupted": slog1[d12] if d12 < len(slog1) else None,
                       "snapshotted": rec2.log[d12] if d12 < len(rec2.log) else None})
        else:
            o.inconclusive("history_not_reproducible")
    tmpl_sched = None
    for s_i, s in enumerate(snaps):
        idx = s["ctx_idx"]
        if d12 is not None and idx > d12:
            o.count("restore_points_dropped_after_run2_difference")
            continue
        if "error" in s:
            o.violate("snapshot", f"clone:{kind}:get_state_raised:{s['error'][0]}:{flags}", {"k": s["k"], "error": s["error"]})
            continue
        if not any(e[0] == "get_config" for e in slog1[idx:]):
            o.count("restore_points_with_empty_continuation")
            continue
        # template: fresh identical searcher (never used) or the snapshotted searcher itself
        if p["template"] == "fresh":
            np.random.seed(seed % (2**32))
            tmpl_sched, _, _ = build(p, seed)
            template = tmpl_sched.searcher
        else:
            tmpl_sched = sched2
            template = rec2.searcher
        try:
            state = pickle.loads(s["blob"])
            clone = template.clone_from_state(state)
        except Exception as e:  # noqa: BLE001
            o.count(f"rp_clone_failed:{fac}")
            # for the random searcher the only option that reaches the constructor call inside clone_from_state
            # unchanged is debug_log: key the mechanism on it; otherwise on all flags
            key = f"debug_log={bool(p['dbg'])}" if kind == "random" else flags
            o.violate("restore", f"clone:{kind}:clone_from_state_raised:{type(e).__name__}:{key}",
                      {"k": s["k"], "error": repr(e)[:300], "template": p["template"], "flags": flags})
            continue
        differs_in = _immutable_diff(kind, rec1.searcher, clone)
        try:
            rdiff = _rng_state_diff(rng_at_snapshot[s_i], clone.random_state.get_state())
        except Exception as e:  # noqa: BLE001
            rdiff = ["unavailable:" + type(e).__name__]
        o.count("decided:random_generator_state_equal")
        if rdiff:
            o.violate("random_generator_state", f"clone:{kind}:random_generator_state_differs_after_restore:" + ",".join(rdiff),
                      {"options": flags, "restore_point_k": s["k"], "components": rdiff, "template": p["template"]})
        configured = any(e[0] == "configure_scheduler" for e in slog1[:idx])
        if configured:
            r = _searcher_call(clone, tmpl_sched, "configure_scheduler", [[], {}])
            if r is not None:
                o.violate("restore", f"clone:{kind}:raised:configure_scheduler:{r[1]}:{flags}", {"k": s["k"], "error": r})
                continue
        bad = None
        n_cfg = 0
        np.random.seed((seed * 7919 + 104729 * (s["k"] + 1)) % (2**32))
        random.seed(seed * 31 + s["k"] + 1)
        o.count("continuations_under_perturbed_global_rng")
        for j in range(idx, len(slog1)):
            name, args, exp = slog1[j]
            got = _searcher_call(clone, tmpl_sched, name, args)
            if name == "get_config" or (isinstance(got, list) and got[:1] == ["raised"]) or (isinstance(exp, list) and exp[:1] == ["raised"]):
                if not _same(got, exp):
                    bad = (j, got, exp)
                    break
                n_cfg += 1
        o.count("decided:suggestion_equal", n_cfg)
        o.count(f"rp:{fac}")
        o.count(f"rp:{fac}:{flags}")
        if s["k"] == 0:
            o.count(f"rp_k0:{fac}")
        if s["paused"]:
            o.count(f"rp_paused:{fac}")
        if s["running"]:
            o.count(f"rp_pending:{fac}")
        if bad is not None:
            j, got, exp = bad
            o.violate("continuation_equal",
                      f"clone:{kind}:{_classify_searcher(slog1, j, got, exp)}:clone_differs_in={differs_in}",
                      {"options": flags, "restore_point_k": s["k"], "first_difference_at_searcher_call": j, "searcher_calls_after_restore": j - idx,
                       "call": slog1[j][:2], "uninterrupted": exp, "clone": got, "template": p["template"],
                       "relation_to_uninterrupted_trace": _searcher_relation(slog1, j, got),
                       "host": p["host"], "configured_before_snapshot": configured})
    _finish(o, p, fac, vt1, port1.log, snaps)


# ------------------------------------------------------------------------------------ engine gpclone (process pairs)
def _child_env():
    env = dict(os.environ)
    env["PYTHONPATH"] = envshim.VERIF
    env.setdefault("PYTHONHASHSEED", "0")
    env["PYTHONDONTWRITEBYTECODE"] = "1"
    for k in ("OMP_NUM_THREADS", "OPENBLAS_NUM_THREADS", "MKL_NUM_THREADS"):
        env[k] = "1"
    return env


def _run_child(req, timeout):
    r = subprocess.run([sys.executable, "-m", "stv.props.c16", "--child", json.dumps(req)], cwd=envshim.VERIF,
                       env=_child_env(), capture_output=True, text=True, timeout=timeout)
    for line in r.stdout.splitlines():
        if line.startswith("STVCHILD:"):
            return json.loads(line[len("STVCHILD:"):])
    raise RuntimeError(f"child produced no result (rc={r.returncode}): {r.stderr[-1500:]}")


def _jlog(log):
    return json.loads(json.dumps(jsonable(log), default=repr))


def _child_p1(req):
    """Uninterrupted trace. Also reports (read-only probe at every step boundary) the boundaries at which the searcher
    knows fewer than num_init_random configs after a model-based state / of the active task in a transfer set-up:
    the parent puts restore points there."""
    import numpy as np

    p = expand(req["spec"])
    seed = req["spec"]["seed"]
    np.random.seed(seed % (2**32))
    sched, value_fn, extra_fn = build(p, seed)
    port = RecPort(sched)
    vt = OrderVTuner(port, vtuner_params(p, seed, p.get("order")), value_fn, extra_fn)
    nir = (p.get("gp") or {}).get("num_init_random", 3)
    seen_model_based, below, transfer_below, gauss, random_phase, step = False, [], [], [], [], 0
    while vt.n_events < vt.p["max_events"]:
        pr = _phase_probe(sched.searcher)
        try:
            if sched.searcher.random_state.get_state()[3]:
                gauss.append(step)  # the legacy generator holds a cached Gaussian (odd number of normal draws so far)
        except Exception:  # noqa: BLE001
            pass
        if pr is not None:
            if pr[0] >= nir and pr[2]:
                seen_model_based = True
            if seen_model_based and pr[0] < nir:
                below.append(step)
            if p.get("transfer_cfg") and pr[0] < nir <= pr[1]:
                transfer_below.append(step)
            if pr[0] < nir and len(vt.trials) >= 1 and not seen_model_based:
                random_phase.append(step)
        if not vt.step():
            break
        step += 1
    return {"log": _jlog(port.log), "order": list(vt.actions), "events": _jlog(vt.events), "raised": _jlog(vt.raised),
            "below_steps": below, "transfer_below_steps": transfer_below, "cached_gaussian_steps": gauss,
            "random_phase_steps": random_phase}


def _params_diag(saved, now):
    """Compare the model parameters of the snapshot with those of the clone after the restore."""
    import numpy as np

    try:
        if saved.keys() != now.keys():
            return "different_names"
        worst = 0.0
        for k_ in saved:
            a_, b_ = np.asarray(saved[k_], dtype=float).ravel(), np.asarray(now[k_], dtype=float).ravel()
            if a_.shape != b_.shape:
                return "different_shapes"
            if a_.size:
                worst = max(worst, float(np.max(np.abs(a_ - b_) / np.maximum(np.abs(a_), 1e-300))))
        if worst == 0.0:
            return "equal"
        return "last_bits" if worst <= 1e-12 else "gross"
    except Exception:  # noqa: BLE001
        return "unavailable"


def _gp_rng_fingerprint(searcher):
    """Read-only probe (mechanism key only): state of the random generator inside the GP model(s) of the
    searcher's estimator (used for fantasy samples and optimisation restarts)."""
    import hashlib

    try:
        est = searcher.state_transformer.estimator
        ests = list(est.values()) if isinstance(est, dict) else [est]
        parts = []
        for e_ in ests:
            gm = getattr(e_, "_gpmodel", None)
            parts.append(None if gm is None else gm.random_state.get_state())
        return hashlib.md5(pickle.dumps(parts)).hexdigest()
    except Exception:  # noqa: BLE001
        return None


def _restore_in_scheduler(sched, info, p=None, seed=None):
    """get_state -> pickle round trip -> clone_from_state on the template -> clone replaces the scheduler's
    searcher -> configure_scheduler (iff the scheduler had configured its searcher). Template: the snapshotted
    searcher itself, or the never-used searcher of a second, identically constructed scheduler (what a restore in
    another process starts from). ``info['stage']`` names the step that raised."""
    import numpy as np

    searcher = sched.searcher
    info["stage"] = "get_state"
    state = searcher.get_state()
    info["stage"] = "pickle"
    state = pickle.loads(pickle.dumps(state))
    if isinstance(state.get("restrict_configurations"), list):
        info["rc_left"] = len(state["restrict_configurations"])
    template = searcher
    if p is not None and p.get("template") == "fresh":
        info["stage"] = "build_template"
        saved = np.random.get_state()
        template = build(p, seed)[0].searcher
        np.random.set_state(saved)
    try:
        info["n_obs"] = int(searcher.state_transformer.state.num_observed_cases())
    except Exception:  # noqa: BLE001
        info["n_obs"] = None
    fp0 = _gp_rng_fingerprint(searcher)
    try:
        # read-only probe (mechanism key only): configs the searcher's internal random searcher would not draw again
        irs = getattr(searcher, "_random_searcher", None)
        info["_internal_excl"] = set() if irs is None else set(irs._excl_list.excl_set)
        info["_match_string"] = searcher.hp_ranges.config_to_match_string
    except Exception:  # noqa: BLE001
        info["_internal_excl"] = None
    rs0 = searcher.random_state.get_state()
    info["has_gauss"] = int(rs0[3])
    info["stage"] = "clone_from_state"
    clone = template.clone_from_state(state)
    try:
        info["rng_diff"] = _rng_state_diff(rs0, clone.random_state.get_state())
    except Exception as e:  # noqa: BLE001
        info["rng_diff"] = ["unavailable:" + type(e).__name__]
    fp1 = _gp_rng_fingerprint(clone)
    info["gp_rng"] = "unavailable" if fp0 is None or fp1 is None else ("same" if fp0 == fp1 else "differs")
    sched._searcher = clone
    if getattr(sched, "_searcher_initialized", False):
        info["stage"] = "configure_scheduler"
        clone.configure_scheduler(sched)
    info["stage"] = "done"
    if seed is not None:
        np.random.seed((seed * 7919 + 104729 * (info.get("k", 0) + 1)) % (2**32))
        random.seed(seed * 31 + info.get("k", 0) + 1)
        info["perturbed_global_rng"] = True
    try:
        info["params"] = _params_diag(state["model_params"], clone.model_parameters())
    except Exception:  # noqa: BLE001
        info["params"] = "unavailable"


def _gp_models(searcher):
    est = searcher.state_transformer.estimator
    ests = list(est.values()) if isinstance(est, dict) else [est]
    return [getattr(e_, "_gpmodel", None) for e_ in ests]


def _reseed_gp_rng_like_fresh(sched, p, seed):
    import numpy as np

    saved = np.random.get_state()
    fresh = build(p, seed)[0].searcher
    np.random.set_state(saved)
    for gm, gf in zip(_gp_models(sched.searcher), _gp_models(fresh)):
        if gm is not None and gf is not None:
            gm.random_state.set_state(gf.random_state.get_state())


def _drop_state_converter(sched, info):
    st = sched.searcher.state_transformer
    info["had_converter"] = getattr(st, "_state_converter", None) is not None
    st._state_converter = None


def _param_roundtrip_in_place(sched, info):
    """Attribution baseline: the *uninterrupted* searcher gets only its own model parameters written back
    through the public set_params(model_parameters()) (the decode/encode round trip a restore implies)."""
    s_ = sched.searcher
    if getattr(sched, "_searcher_initialized", False):
        s_.set_params(s_.model_parameters())


def _rng_state_diff(a, b):
    """Direct clause: the random generator of a restored searcher is in the same state as the snapshotted one's.
    Component-wise comparison of RandomState.get_state() (name, key vector, position, has_gauss, cached_gaussian; the
    cached value only counts if one is flagged), then a few draws of each kind from copies of both."""
    import numpy as np

    names = ["name", "key", "pos", "has_gauss", "cached_gaussian"]
    diff = []
    for n_, x, y in zip(names, a, b):
        if n_ == "key":
            same = np.array_equal(np.asarray(x), np.asarray(y))
        elif n_ == "cached_gaussian":
            same = (not a[3] and not b[3]) or float(x) == float(y)
        else:
            same = x == y
        if not same:
            diff.append(n_)
    ra, rb = np.random.RandomState(0), np.random.RandomState(0)
    ra.set_state(a)
    rb.set_state(b)
    for kind_, draw in (("normal", lambda r: r.normal(size=3)), ("uniform", lambda r: r.uniform(size=3)),
                        ("randint", lambda r: r.randint(0, 1000, size=3)), ("choice", lambda r: r.choice(17, size=3))):
        if not np.array_equal(draw(ra), draw(rb)):
            diff.append("draw_" + kind_)
            break
    return diff


def _gp_options(p):
    """Documented non-default search options / workload patterns present in a GP case (for rp_with_option counters)."""
    g = p.get("gp") or {}
    out = []
    if p.get("transfer_cfg"):
        out.append("transfer_learning")
    if g.get("allow_duplicates"):
        out.append("allow_duplicates")
    if p.get("rc"):
        out.append("restrict_configurations")
    if g.get("opt_skip_period", 1) > 1:
        out.append("opt_skip_period")
    if g.get("opt_skip_init_length", 150) < 150:
        out.append("opt_skip_init_length")
    if g.get("no_fantasizing"):
        out.append("no_fantasizing")
    if p.get("early"):
        out.append("early_complete_before_first_rung")
    if p.get("early_fail"):
        out.append("early_fail")
    if g.get("model") == "gp_independent":
        out.append("model_gp_independent")
    if g.get("max_size_data_for_model") is not None:
        out.append("max_size_data_for_model")
    return out


def _n_initial_points(p, seed):
    pts = _points(random.Random(seed % (2**31 - 1) + 77), p["space"], p["points"])
    return 1 if pts is None else len(pts)


def _phase_probe(searcher):
    """Read-only (reach counters only): how many configs of the active task / of all tasks the searcher knows
    (observed, pending, failed), and whether it has observations."""
    try:
        st = searcher.state_transformer.state
        ids = {e.trial_id for e in st.trials_evaluations} | {e.trial_id for e in st.pending_evaluations} | set(st.failed_trials)
        active = {t for t in ids if not str(t).startswith("other")}
        has_obs = any(not str(e.trial_id).startswith("other") for e in st.trials_evaluations)
        return len(active), len(ids), has_obs
    except Exception:  # noqa: BLE001
        return None


def _run_to_k_then(p, seed, order, k, action):
    import numpy as np

    np.random.seed(seed % (2**32))
    sched, value_fn, extra_fn = build(p, seed)
    port = RecPort(sched)
    vt = OrderVTuner(port, vtuner_params(p, seed, order), value_fn, extra_fn)
    step = 0
    info = {"k": k}
    max_events = vt.p["max_events"]
    nir = (p.get("gp") or {}).get("num_init_random", 3)
    seen_model_based = False
    while vt.n_events < max_events:
        pr = _phase_probe(sched.searcher) if step <= k else None
        if pr is not None and pr[0] >= nir and pr[2]:
            seen_model_based = True  # a get_config in this state is model based
        if step == k:
            info["idx"] = len(port.log)
            info["paused"] = sum(1 for t in vt.trials.values() if t.status == "paused")
            info["running"] = len(vt.running)
            if pr is not None:
                info["in_random_phase"] = bool(pr[0] < nir and not seen_model_based and len(vt.trials) >= 1)
                info["after_random_draw"] = bool(len(vt.trials) > _n_initial_points(p, seed))
                info["below_nir_after_model_based"] = bool(seen_model_based and pr[0] < nir)
                info["transfer_active_below_nir"] = bool(p.get("transfer_cfg") and pr[0] < nir <= pr[1])
            try:
                action(sched, info)
            except Exception as e:  # noqa: BLE001
                import traceback

                info["restore_error"] = [type(e).__name__, repr(e)[:300], traceback.format_exc()[-800:]]
                break
        if not vt.step():
            break
        step += 1
    info["log"] = _jlog(port.log)
    return info


def _child_p2_point(p, seed, order, k, log1):
    """Runs in a forked grandchild: the restored run is the first (and only relevant) GP scheduler built in
    this address space. If its continuation differs from P1's, a second run decides whether the parameter
    round trip alone explains the difference (attribution only; the verdict is the difference itself)."""
    info = _run_to_k_then(p, seed, order, k, lambda sched, info_: _restore_in_scheduler(sched, info_, p, seed))
    if "idx" in info and "restore_error" not in info:
        d = _first_diff(log1, info["log"])
        info["d"] = d
        if d is not None and d >= info["idx"]:
            # noise check: the same flow without any restore must reproduce P1 at least up to the difference
            try:
                base0 = _run_to_k_then(p, seed, order, k, lambda sched, info_: None)
                bd = _first_diff(log1, base0["log"], band=True)
                info["baseline_reproduces_p1"] = bd is None or bd > d
                info["baseline_first_diff"] = bd
                if bd is not None and bd <= d:
                    info["baseline_entry"] = base0["log"][bd] if bd < len(base0["log"]) else None
            except Exception:  # noqa: BLE001
                info["baseline_reproduces_p1"] = None
        if d is not None and d >= info["idx"] and info.get("params") == "last_bits":
            try:
                base = _run_to_k_then(p, seed, order, k, _param_roundtrip_in_place)
                bd2 = _first_diff(base["log"], info["log"], band=True)
                info["explained_by_param_roundtrip"] = bd2 is None or bd2 > d
            except Exception:  # noqa: BLE001
                info["explained_by_param_roundtrip"] = None
        if d is not None and d >= info["idx"] and info.get("gp_rng") == "differs":
            # attribution for finding C16-F7: the *uninterrupted* searcher gets only the generator(s) of its GP model(s)
            # put back to the state of a freshly constructed searcher's; if that alone reproduces the restored trace, the
            # difference is the known loss of that generator, otherwise it is something else
            try:
                base = _run_to_k_then(p, seed, order, k, lambda sched, info_: _reseed_gp_rng_like_fresh(sched, p, seed))
                bd3 = _first_diff(base["log"], info["log"], band=True)
                info["explained_by_gp_rng"] = bd3 is None or bd3 > d
            except Exception:  # noqa: BLE001
                info["explained_by_gp_rng"] = None
        if d is not None and d >= info["idx"] and (p.get("gp") or {}).get("max_size_data_for_model") is not None:
            # attribution for C16-F11: the *uninterrupted* searcher merely loses its state converter (the object that
            # down-samples the data to max_size_data_for_model); if that alone reproduces the restored trace, the
            # difference is the converter missing in the clone
            try:
                base = _run_to_k_then(p, seed, order, k, _drop_state_converter)
                bd4 = _first_diff(base["log"], info["log"], band=True)
                info["explained_by_lost_state_converter"] = bool(base.get("had_converter")) and (bd4 is None or bd4 > d)
            except Exception:  # noqa: BLE001
                info["explained_by_lost_state_converter"] = None
        if d is not None and d >= info["idx"] and d < len(info["log"]) and info.get("_internal_excl"):
            try:
                e2 = info["log"][d]
                if e2[0] == "suggest" and e2[2] and e2[2][0]:
                    cfg = {k_: v_ for k_, v_ in e2[2][2].items()}
                    info["restored_config_was_excluded_by_internal_random_searcher"] = \
                        info["_match_string"](cfg) in info["_internal_excl"]
            except Exception:  # noqa: BLE001
                pass
        if d is not None:
            lo = max(0, d - 1)
            info["log"] = info["log"][lo:d + 1]
            info["log_offset"] = lo
        else:
            info["log"] = []
    info.pop("_internal_excl", None)
    info.pop("_match_string", None)
    return info


def _child_p2(req):
    p = expand(req["spec"])
    seed = req["spec"]["seed"]
    out = []
    for k in req["points"]:
        r, w = os.pipe()
        pid = os.fork()
        if pid == 0:
            code = 0
            try:
                os.close(r)
                try:
                    res = _child_p2_point(p, seed, req["order"], k, req["log1"])
                except BaseException as e:  # noqa: BLE001
                    import traceback

                    res = {"k": k, "harness_error": traceback.format_exc()[-1500:]}
                with os.fdopen(w, "w") as f:
                    f.write(json.dumps(res, default=repr))
            except BaseException:  # noqa: BLE001
                code = 3
            finally:
                os._exit(code)
        os.close(w)
        with os.fdopen(r) as f:
            data = f.read()
        os.waitpid(pid, 0)
        try:
            out.append(json.loads(data))
        except Exception:  # noqa: BLE001
            out.append({"k": k, "harness_error": "no output from grandchild"})
    return {"points": out}


def child_main(arg):
    req = json.loads(arg)
    preload()
    sink = io.StringIO()
    with contextlib.redirect_stdout(sink):
        res = _child_p1(req) if req["mode"] == "p1" else _child_p2(req)
    sys.stdout.write("STVCHILD:" + json.dumps(res, default=repr) + "\n")
    sys.stdout.flush()


def run_gpclone(spec, o):
    p = expand(spec)
    kind = p["kind"]
    fac = f"gpclone:{kind}"
    cspec = {k: v for k, v in spec.items() if not k.startswith("_")}
    r1 = _run_child({"mode": "p1", "spec": cspec}, timeout=250)
    log1, order = r1["log"], r1["order"]
    n_steps = len(order)
    rng = random.Random(spec["seed"] + 41)
    many = spec.get("n_points", 17)
    if "points_k" in spec:
        points = list(spec["points_k"])
    elif n_steps <= many:
        points = list(range(n_steps))
    else:
        # k = 0, the first boundary with a paused trial (from P1's events), random others
        points = {0}
        for i, e in enumerate(r1["events"]):
            if e[0] == "result" and e[4] == "PAUSE":
                points.add(min(i + 1, n_steps - 1))
                break
        # boundaries where the searcher has fallen below num_init_random again / the active task is still below it
        points |= set([k for k in r1.get("below_steps", []) if k < n_steps][:6])
        points |= set([k for k in r1.get("transfer_below_steps", []) if k < n_steps][:4])
        if p.get("rc"):
            points |= set([k for k in r1.get("random_phase_steps", []) if k < n_steps][:12])
        cg = [k for k in r1.get("cached_gaussian_steps", []) if k < n_steps]
        points |= set(cg[:2] + cg[-3:])  # boundaries at which the searcher's generator holds a cached Gaussian
        rest = [k for k in range(1, n_steps) if k not in points]
        points |= set(rng.sample(rest, max(0, many - len(points))))
        points = sorted(points)
    r2 = _run_child({"mode": "p2", "spec": cspec, "order": order, "points": points, "log1": log1}, timeout=600)
    model = (p.get("gp") or {}).get("model", "gp")
    o.count(f"gpclone_variant:{kind}:model={model}:template={p['template']}")
    for pt in r2["points"]:
        k = pt["k"]
        if "harness_error" in pt:
            o.inconclusive("grandchild_error")
            o.ev("grandchild_error", k, pt["harness_error"][-400:])
            continue
        if "idx" not in pt:
            o.count("restore_points_beyond_history")
            continue
        idx = pt["idx"]
        if not _has_compared_output(log1, idx):
            o.count("restore_points_with_empty_continuation")
            continue
        if "restore_error" in pt:
            o.count(f"rp_clone_failed:{fac}")
            stage = pt.get("stage")
            where = ("before_first_suggest" if k == 0 else "after_first_suggest") if stage == "get_state" else f"template={p['template']}"
            m_ = model
            if stage == "clone_from_state" and pt.get("rc_left") == 0:
                m_ = "any"
                where = "restrict_configurations_used_up:" + where
            o.violate("restore", f"gpclone:{kind}:{stage}_raised:{pt['restore_error'][0]}:model={m_}:{where}",
                      {"k": k, "error": pt["restore_error"], "gp_options": p.get("gp"), "template": p["template"]})
            continue
        d = pt["d"]
        o.count(f"rp:{fac}")
        o.count("decided:random_generator_state_equal")
        if pt.get("perturbed_global_rng"):
            o.count("continuations_under_perturbed_global_rng")
        msz = (p.get("gp") or {}).get("max_size_data_for_model")
        if msz is not None and (pt.get("n_obs") or 0) > msz:
            o.count("rp_with_down_sampling_active")
        if pt.get("in_random_phase"):
            o.count("rp_in_initial_random_phase:gpclone")
            if p.get("rc"):
                o.count("rp_in_initial_random_phase_with_restrict_configurations")
                if pt.get("after_random_draw"):
                    o.count("rp_in_initial_random_phase_with_restrict_configurations_after_a_random_draw")
        if pt.get("has_gauss"):
            o.count("rp_with_cached_gaussian")
        if (p.get("gp") or {}).get("num_init_candidates", 0) % 2 == 1:
            o.count("rp_with_odd_num_init_candidates")
        o.count("rp_initial_scoring:" + ("acq_func" if p.get("rc") else str((p.get("gp") or {}).get("initial_scoring", "thompson_indep"))))
        if pt.get("rng_diff"):
            o.violate("random_generator_state",
                      f"gpclone:{kind}:random_generator_state_differs_after_restore:" + ",".join(pt["rng_diff"]),
                      {"restore_point_k": k, "components": pt["rng_diff"], "cached_gaussian_at_snapshot": pt.get("has_gauss"),
                       "gp_options": p.get("gp"), "template": p["template"]})
        o.count(f"restored_params:{pt.get('params')}")
        o.count(f"gp_model_rng_after_restore:{pt.get('gp_rng')}")
        for name in _gp_options(p):
            o.count(f"rp_with_option:{name}")
        if pt.get("below_nir_after_model_based"):
            o.count("rp_below_num_init_random_after_first_model_based_suggestion:gpclone")
        if pt.get("transfer_active_below_nir"):
            o.count("rp_transfer_active_task_below_num_init_random:gpclone")
        if k == 0:
            o.count(f"rp_k0:{fac}")
        if pt["paused"]:
            o.count(f"rp_paused:{fac}")
        if pt["running"]:
            o.count(f"rp_pending:{fac}")
        upto = len(log1) if d is None else d
        o.count("decided:suggestion_equal", sum(1 for e in log1[idx:upto] if e[0] == "suggest"))
        o.count("decided:decision_equal", sum(1 for e in log1[idx:upto] if e[0] == "on_trial_result"))
        if d is None:
            continue
        if d < idx:
            o.inconclusive("prefix_not_reproduced_in_fresh_process")
            o.ev("prefix_differs", k, d, idx)
            continue
        e2 = pt["log"][d - pt["log_offset"]] if d - pt["log_offset"] < len(pt["log"]) else None
        e1 = log1[d] if d < len(log1) else None
        if e1 is not None and e2 is not None and (e1[0] != e2[0] or not _deep_eq(e1[1], e2[1])):
            what = "call_sequence_differs"
        else:
            what = _classify(log1, min(d, len(log1) - 1), None if e2 is None else e2[2], None if e1 is None else e1[2])
        if pt.get("baseline_reproduces_p1") is False:
            o.count(f"gp_difference_not_reproducible:{fac}")
            continue
        if pt.get("explained_by_lost_state_converter"):
            what += ":down_sampling_active"
        elif pt.get("params") == "gross":
            what += ":restored_model_params_discarded"
        elif e1 is not None and e2 is not None and what == "suggest:config_differs" and _in_float_band(e1[2], e2[2]):
            o.count("roundoff_band")
            o.count(f"roundoff_band:{fac}")
            if pt.get("explained_by_param_roundtrip"):
                o.count("roundoff_band:explained_by_model_params_decode_encode_round_trip")
            continue
        elif pt.get("explained_by_param_roundtrip"):
            # the restored parameters differ from the snapshot in the last bits only (decode/encode round trip of
            # set_params) and the same round trip applied to the uninterrupted searcher reproduces the restored trace
            # exactly: an in-band perturbation amplified by the optimiser, not judged
            o.count("roundoff_band")
            o.count("roundoff_band:amplified:explained_by_model_params_decode_encode_round_trip")
            continue
        elif pt.get("params") not in ("equal", "last_bits"):
            what += f":restored_model_params_{pt.get('params')}"
        elif pt.get("gp_rng") == "differs" and pt.get("explained_by_gp_rng"):
            what += ":gp_model_random_state_not_restored"
        elif pt.get("restored_config_was_excluded_by_internal_random_searcher"):
            what += ":repeats_config_excluded_only_by_internal_random_searcher"
        elif pt.get("rc_left") == 0 and what.startswith("raised:"):
            what += ":restrict_configurations_used_up"
        o.violate("continuation_equal", f"gpclone:{kind}:{what}:model={model}:template={p['template']}",
                  {"restore_point_k": k, "first_difference_at_call": d, "calls_after_restore": d - idx,
                   "uninterrupted": e1, "restored": e2, "restored_model_params_vs_snapshot": pt.get("params"),
                   "gp_model_random_state_after_restore": pt.get("gp_rng"),
                   "explained_by_lost_state_converter": pt.get("explained_by_lost_state_converter"),
                   "observations_at_snapshot": pt.get("n_obs"),
                   "explained_by_gp_model_random_state_alone": pt.get("explained_by_gp_rng"),
                   "explained_by_param_roundtrip": pt.get("explained_by_param_roundtrip"),
                   "paused_at_snapshot": pt["paused"], "running_at_snapshot": pt["running"],
                   "gp_options": p.get("gp"), "type": p.get("type")})
    ev = r1["events"]
    kinds = [e[0] + (":" + str(e[4]) if e[0] == "result" else (":" + str(e[2]) if e[0] == "suggest" else "")) for e in ev]
    for e in ev[-40:]:
        o.ev(*e)
    o.set_sig([fac, kinds, points], nontrivial=o.counters.get(f"rp:{fac}", 0) > 0)
    o.sample = {"facility": fac, "params": {k: v for k, v in p.items() if k != "space"}, "space": p["space"],
                "history_events": len(ev), "restore_points": points, "first_events": ev[:10], "raised": r1["raised"]}


# ------------------------------------------------------------------------------------ entry
def run_case(spec):
    o = Obs()
    o.count("engine:" + spec["engine"])
    if spec["engine"] == "dill":
        run_dill(spec, o)
    elif spec["engine"] == "clone":
        run_clone(spec, o)
    else:
        run_gpclone(spec, o)
    return o.result()


if __name__ == "__main__":
    if len(sys.argv) >= 3 and sys.argv[1] == "--child":
        child_main(sys.argv[2])
