"""C17 — the results log and the reported best configuration reflect what happened.

Part A (real Tuner runs, simulator and scripted-process backends): the recorded history (deliveries,
everything the backend handed to the loop, start/resume configurations) is compared with the
callback's result rows, the CSV read back from disk, ``Tuner.best_config()``,
``load_experiment(...).best_config()`` and the ``TuningStatus`` statistics.
Part B (direct ``TuningStatus.update`` histories): generated histories with NaN / +-inf / strings /
ties against reference min / max / sum / count and best-trial selection.
"""
import math
import os
import random

from stv import envshim  # noqa: F401
from stv import gen, simrun
from stv.obs import Obs

ID = "C17"
LEVEL = "exploration"
RULE = (
    "part A: case = one real Tuner.run (scheduler kind x backend x workers x poll plan / delays x results_update_interval "
    "in {0, small, huge} x extra metrics: a string-valued one and a numeric one with NaN/inf) checked against its own "
    "recorded history; part B: case = one generated TuningStatus.update history (1-8 trials, 1-4 metrics, values from "
    "{floats, ints, NaN, +-inf, ties, strings}). Distinct = digest of (kind, number of rows, trials, skipped-in-batch "
    "results, NaN count) / of the history's value classes; non-trivial = at least 3 rows (A) / 3 results (B)."
)
ASSUMPTIONS = [
    "statistics semantics spelled out: count over all results handed to the loop; min / max over the non-NaN numeric values; "
    "sum is the plain floating-point sum (NaN if any NaN); a metric is tracked iff its values are numeric",
    "each metric is either always numeric or always non-numeric within one run (mixed types are not generated)",
    "CSV read-back: floats equal to 1e-12 relative, NaN = NaN, strings exact; integer columns may come back as floats",
    "the best configuration may be any trial attaining the optimum (ties)",
]
CASE_TIMEOUT = 60

KINDS_A = ["fifo_random", "hb_stopping", "hb_promotion", "sync_hb", "median", "pbt", "fifo_grid", "hb_pasha", "moasha"]


def preload():
    import syne_tune  # noqa: F401
    import syne_tune.experiments  # noqa: F401
    import syne_tune.optimizer.schedulers.synchronous  # noqa: F401
    import syne_tune.blackbox_repository.simulated_tabular_backend  # noqa: F401
    import syne_tune.backend.simulator_backend.simulator_callback  # noqa: F401
    import pandas  # noqa: F401


def cases(tier, seed):
    na, nb = (800, 4000) if tier == "quick" else (10000, 60000)
    out = []
    for i in range(na):
        out.append({"part": "A", "seed": seed * 93179 + i * 3 + 1, "kind": KINDS_A[i % len(KINDS_A)],
                    "backend": "sim" if i % 3 == 2 else "proc"})
    for i in range(nb):
        out.append({"part": "B", "seed": seed * 93179 + i * 3 + 2})
    return out


def floors(tier):
    k = 1 if tier == "quick" else 20
    return {"A:runs": 300 * k, "A:rows_compared": 8000 * k, "A:csv_cells_compared": 50000 * k, "A:runs_with_skipped_in_batch": 40 * k,
            "A:best_config_decided": 250 * k, "A:loaded_best_config_decided": 250 * k, "A:stats_trials_compared": 1500 * k,
            "A:resumed_with_changed_config": 30 * k, "A:trials_without_results": 20 * k,
            "A:runs_aborted_by_failure_limit": 10 * k, "A:runs_with_nan_gaps_in_the_optimised_metric": 30 * k, "A:continued_at_other_path": 60 * k, "A:statistics_compared_after_continuation": 30 * k, "A:runs_with_keys_missing_from_the_first_row": 100 * k, "A:runs_with_table_written_several_times_during_the_run": 100 * k, "A:runs_with_table_written_before_a_new_key_appeared": 40 * k, "A:best_config_per_metric_decided:mode_differs_from_first_metric": 30 * k,
            "B:histories": 2000 * k, "B:histories_with_nan": 200 * k, "B:histories_with_ties": 100 * k, "B:stats_compared": 8000 * k,
            "B:best_decided": 1500 * k, "B:best_decided_with_non_numeric_reports": 60 * k}


# ------------------------------------------------------------------------------------ helpers
def _isnum(x):
    import numbers

    return isinstance(x, numbers.Number)


def _isnan(x):
    return isinstance(x, float) and math.isnan(x)


def _eqv(a, b):
    """NaN-aware equality of two python values."""
    if _isnum(a) and _isnum(b):
        fa, fb = float(a), float(b)
        if math.isnan(fa) or math.isnan(fb):
            return math.isnan(fa) and math.isnan(fb)
        return fa == fb
    return a == b


def ref_stats(values):
    """values: list of python values of ONE metric in arrival order -> dict(min,max,sum) or None if not numeric."""
    if not values or not all(_isnum(v) for v in values):
        return None
    mn, mx = float("inf"), float("-inf")
    s = 0
    for v in values:
        if not _isnan(float(v)):
            mn = min(mn, v)
            mx = max(mx, v)
        s = s + v
    return {"min": mn, "max": mx, "sum": s}


def cmp_stats(o, where, ms, per_metric_values, count):
    """Compare a MetricsStatistics object with the reference."""
    o.count("B:stats_compared" if where.startswith("B") else "A:stats_trials_compared")
    if ms.count != count:
        o.violate("statistics", f"{where}:count_differs", {"got": ms.count, "expected": count})
        return
    for m, vals in per_metric_values.items():
        ref = ref_stats(vals)
        if ref is None:
            if m in ms.min_metrics or m in ms.max_metrics or m in ms.sum_metrics:
                if not any(_isnum(v) for v in vals):
                    o.violate("statistics", f"{where}:non_numeric_metric_tracked", {"metric": m})
            continue
        got = {"min": ms.min_metrics.get(m), "max": ms.max_metrics.get(m), "sum": ms.sum_metrics.get(m)}
        for key in ("min", "max", "sum"):
            g, e = got[key], ref[key]
            ok = g is not None and (_eqv(g, e) or (key == "sum" and _isnum(g) and not _isnan(float(g)) and not _isnan(float(e))
                                                   and abs(float(g) - float(e)) <= 1e-9 * max(1.0, abs(float(e)))))
            if not ok:
                o.violate("statistics", f"{where}:{key}_differs" + (":with_nan" if any(_isnan(float(v)) for v in vals) else ""),
                          {"metric": m, "got": g, "expected": e, "values": [repr(v) for v in vals[:30]]})
                return


# ------------------------------------------------------------------------------------ part A
def expand_a(spec):
    rng = random.Random(spec["seed"])
    kind = spec["kind"]
    if kind == "pbt":
        spec = dict(spec, backend="proc")
    if spec["backend"] == "sim":
        p = simrun.sim_params(rng, kind=kind)
        p["sjwd"] = True
        p["stop"] = rng.choice([{"max_num_evaluations": rng.randint(15, 120)}, {"max_num_trials_started": rng.randint(3, 20)}])
    else:
        max_t = rng.choice([3, 4, 6, 9])
        if kind in ("sync_hb", "hb_pasha") and max_t < 4:
            max_t = 4
        use_mra = rng.random() < 0.6
        p = {"kind": kind, "mode": rng.choice(["min", "max"]), "n_workers": rng.randint(1, 5), "max_t": max_t,
             "use_mra": use_mra, "checkpointing": rng.random() < 0.6, "delete_checkpoints": False,
             "plan": {"burst": rng.choice([1, 2, 3, 5]), "late_max": rng.randint(0, 2), "exit_lag_max": rng.randint(0, 2)},
             "stop": rng.choice([{"max_num_evaluations": rng.randint(15, 120)}, {"max_num_trials_started": rng.randint(3, 20)}]),
             "sjwd": True, "async": rng.random() < 0.9, "wait": rng.random() < 0.3,
             "space": gen.small_space(rng, ensure_infinite=(kind != "fifo_grid"), finite=(kind == "fifo_grid"), ordinal_kinds=("equal",)),
             "curves": rng.choice(["continuous", "ties"])}
        if simrun.pause_capable(kind) and not use_mra:
            p["plan"]["burst"] = 1
        if rng.random() < 0.25 and kind in ("fifo_random", "fifo_grid", "hb_stopping", "median"):  # others: C13-K2/K3, C05-K3
            p["plan"]["fail"] = {f"{rng.randint(0, 8)}:0": 0 for _ in range(rng.randint(1, 2))}  # trials without results
    p["results_update_interval"] = rng.choice([0.0, 0.001, 1e9])
    if kind == "moasha":
        # MOASHA's non-dominated sort is cubic in the number of trials at a rung
        p["stop"] = {"max_num_trials_started": rng.randint(3, 20)}
    if kind in ("fifo_random", "fifo_grid", "hb_stopping", "median") and rng.random() < 0.2:
        # the run is aborted by the failure limit: what was delivered until then must still be stored
        p["max_failures"] = rng.randint(0, 2)
        plan = {f"{t}:0": rng.randint(0, 2) for t in range(rng.randint(0, 3), 40, rng.choice([1, 2, 3]))}
        if spec["backend"] == "sim":
            p["fail"] = plan
        else:
            p["plan"]["fail"] = plan
        p["abort_by_failures"] = True
    p.update({k: v for k, v in spec.items() if k not in ("seed", "kind", "backend", "part") and not k.startswith("_")})
    return p, spec


def run_part_a(spec, o):
    import pandas as pd

    p, spec = expand_a(spec)
    kind = p["kind"]
    o.count("A:runs")
    sim = spec["backend"] == "sim"
    nan_ok = kind.startswith("fifo") or kind == "median"
    rr = random.Random(spec["seed"] + 77)
    sparse_keys = (not sim) and random.Random(spec["seed"] + 78).random() < 0.4
    if sparse_keys:
        o.count("A:runs_with_keys_missing_from_the_first_row")

    def extra_fn(t, l, rn):
        v = rr.choice([0.5, 1.5, float("nan"), float("inf"), float("-inf"), 2, -3, 0.1 * t + l])
        d = {"aux_s": rr.choice(["a", "b", "{x}", "na"]), "m2": v}
        if kind == "moasha":
            d["loss2"] = ((t * 31 + l * 17) % 101) / 101.0
        if sparse_keys:
            # a metric the script computes only every other epoch, and one that only later trials report: the first row of the
            # table has neither key
            if l % 2 == 0:
                d["val_every_2nd"] = 0.01 * l + 0.1 * t
            if t >= 2:
                d["only_later_trials"] = float(t)
        return d

    value_fn = None
    if not sim and kind in ("fifo_random", "fifo_grid") and random.Random(spec["seed"] + 9).random() < 0.5:
        # gaps: some reports carry NaN for the optimised metric (e.g. a validation metric computed every other epoch)
        base_v = gen.Curves(p.get("curves", "continuous"), spec["seed"] + 1, p["max_t"])
        gap_seed = spec["seed"] * 17 + 3

        def value_fn(t, l, cfg=None):
            if random.Random(gap_seed + t * 131 + l).random() < 0.3:
                return float("nan")
            return base_v(t, l, cfg)

        o.count("A:runs_with_nan_gaps_in_the_optimised_metric")
    if sim:
        r = simrun.SimRun(p, spec["seed"])
    else:
        r = simrun.ProcRun(p, spec["seed"], extra_fn=extra_fn, value_fn=value_fn)
    n_stores = [0]
    skew = (not sim) and p["results_update_interval"] < 1 and random.Random(spec["seed"] + 79).random() < 0.7
    if skew:
        # RegularCallback (syne_tune.util) measures whole seconds of the wall clock between two stores: these runs take
        # milliseconds, so the harness lets that clock run fast (every reading 0.6 s later than the one before) and the
        # table is written several times during the run, as in an experiment of realistic length
        import datetime as _dt
        import syne_tune.util as _U

        ticks = [0]

        class _FastClock(_dt.datetime):
            @classmethod
            def now(cls, tz=None):
                ticks[0] += 1
                return _dt.datetime.now(tz) + _dt.timedelta(seconds=0.6 * ticks[0])

        orig_store = r.store_cb.store_results

        def counting_store():
            n_stores[0] += 1
            return orig_store()

        r.store_cb.store_results = counting_store
        old_clock = _U.datetime
        _U.datetime = _FastClock
        try:
            r.run()
        finally:
            _U.datetime = old_clock
        if n_stores[0] >= 3:
            o.count("A:runs_with_table_written_several_times_during_the_run")
            if sparse_keys:
                o.count("A:runs_with_table_written_before_a_new_key_appeared")
    else:
        r.run()
    if r.exc is not None:
        n_err = sum(1 for e in r.rec.events if e[1] == "s.on_trial_error.call")
        if (p.get("abort_by_failures") and type(r.exc).__name__ == "ValueError" and "Trial - " in repr(r.exc)
                and n_err > p["max_failures"]):
            # documented ending: more than max_failures trials failed; everything below applies unchanged
            o.count("A:runs_aborted_by_failure_limit")
        else:
            if type(r.exc).__name__ == "LoopBoundExceeded":
                o.inconclusive("loop_bound")
            else:
                o.violate("run_completes", f"A:tuner_run_raised:{type(r.exc).__name__}", {"error": repr(r.exc)[:300], "kind": kind})
            _cleanup(r)
            return
    rows = list(r.results()) if sim else list(r.store_cb.results)
    events = r.rec.events
    mode = p["mode"]
    # ---- history
    deliveries = []      # (trial, result_at_call, decision, config_at_delivery)
    handed = {}          # trial -> list of results handed to the loop (fetched), in order
    handed_all = []
    cur_cfg = {}
    pend = None
    skipped_in_batch = False
    decided_in_batch = set()
    resumed_changed = 0
    tuning_ended = False
    for idx, k, pl in events:
        if k == "c.tuning_end":
            tuning_ended = True
        if tuning_ended:
            continue
        if k == "b.start_trial.ret":
            cur_cfg[pl["ret"]["trial_id"]] = pl["ret"]["config"]
        elif k == "b.resume_trial.ret":
            if pl["ret"]["config"] != cur_cfg.get(pl["trial_id"]):
                resumed_changed += 1
            cur_cfg[pl["trial_id"]] = pl["ret"]["config"]
        elif k == "b.fetch_status_results.ret":
            decided_in_batch = set()
            for t, res in pl["ret"]["results"]:
                handed.setdefault(t, []).append(res)
                handed_all.append((t, res))
        elif k == "s.on_trial_result.call":
            pend = (pl["trial_id"], pl["result"])
        elif k == "s.on_trial_result.ret" and pend is not None:
            deliveries.append((pend[0], pend[1], pl["ret"], dict(cur_cfg.get(pend[0], {}))))
            if pl["ret"] in ("STOP", "PAUSE"):
                decided_in_batch.add(pend[0])
            pend = None
    n_handed = len(handed_all)
    if n_handed > len(deliveries):
        skipped_in_batch = True
        o.count("A:runs_with_skipped_in_batch")
    if resumed_changed:
        o.count("A:resumed_with_changed_config", resumed_changed)
    started = set(cur_cfg)
    if any(t not in handed for t in started):
        o.count("A:trials_without_results")
    # ---- rows <-> deliveries
    if len(rows) != len(deliveries):
        o.violate("one_row_per_delivered_result", "A:number_of_rows_differs_from_deliveries", {"rows": len(rows), "deliveries": len(deliveries)})
    else:
        for i, (row, (t, res, dec, cfg)) in enumerate(zip(rows, deliveries)):
            o.count("A:rows_compared")
            if row.get("trial_id") != t:
                o.violate("rows_in_delivery_order", "A:row_trial_id_differs", {"row": i, "got": row.get("trial_id"), "expected": t})
                break
            bad = [k2 for k2, v in res.items() if k2 not in row or not _eqv(row[k2], v)]
            if bad:
                o.violate("row_carries_result_values", "A:row_value_differs_from_delivered_result", {"row": i, "keys": bad[:5], "result": {k2: repr(res[k2]) for k2 in bad[:5]}, "row_values": {k2: repr(row.get(k2)) for k2 in bad[:5]}})
                break
            if row.get("st_decision") != dec:
                o.violate("row_carries_decision", "A:row_decision_differs", {"row": i, "got": row.get("st_decision"), "expected": dec})
                break
            badc = [k2 for k2, v in cfg.items() if f"config_{k2}" not in row or not _eqv(row[f"config_{k2}"], v)]
            extra_c = [k2 for k2 in row if k2.startswith("config_") and k2[7:] not in cfg]
            if badc or extra_c:
                o.violate("row_carries_full_configuration", "A:row_configuration_differs_from_trial_configuration_at_delivery",
                          {"row": i, "missing_or_different": badc[:5], "unexpected": extra_c[:5], "config": cfg})
                break
            if "st_tuner_time" not in row or not _isnum(row["st_tuner_time"]):
                o.violate("row_carries_time_stamp", "A:row_without_tuner_time_stamp", {"row": i})
                break
    # ---- CSV read back
    path = os.path.join(str(r.tuner.tuner_path), "results.csv.zip")
    if rows:
        if not os.path.exists(path):
            o.violate("read_back", "A:results_file_missing", {"path": path})
        else:
            df = pd.read_csv(path)
            if len(df) != len(rows):
                o.violate("read_back", "A:csv_row_count_differs", {"csv": len(df), "rows": len(rows)})
            else:
                cols = set()
                for row in rows:
                    cols.update(row.keys())
                if set(df.columns) != cols:
                    o.violate("read_back", "A:csv_columns_differ", {"missing": sorted(cols - set(df.columns))[:8], "extra": sorted(set(df.columns) - cols)[:8]})
                else:
                    done = False
                    for c in sorted(cols):
                        col = df[c].tolist()
                        for i, row in enumerate(rows):
                            o.count("A:csv_cells_compared")
                            a = row.get(c, float("nan"))
                            b = col[i]
                            if _isnum(a) and not isinstance(a, bool):
                                ok = _isnum(b) and (_eqv(float(a), float(b)) or (not _isnan(float(a)) and not _isnan(float(b)) and math.isfinite(float(a))
                                                                                 and abs(float(a) - float(b)) <= 1e-12 * max(abs(float(a)), 1e-300)))
                            elif isinstance(a, bool):
                                ok = bool(b) == a
                            else:
                                ok = (b == a) or (a is None and _isnum(b) and _isnan(float(b))) or (isinstance(a, str) and str(b) == a)
                                if isinstance(a, str) and a in ("na", "NA", "nan", "null", "") and _isnum(b):
                                    ok = False
                            if not ok:
                                o.violate("read_back", "A:csv_cell_differs_from_row" + (":string_read_as_missing" if isinstance(a, str) else ""),
                                          {"column": c, "row": i, "in_memory": repr(a), "read_back": repr(b)})
                                done = True
                                break
                        if done:
                            break
    # ---- statistics of TuningStatus vs the values handed to the loop
    st = r.tuner.tuning_status
    if st is not None:
        for t, lst in handed.items():
            per = {}
            for res in lst:
                for k2, v in res.items():
                    per.setdefault(k2, []).append(v)
            # only metrics present in every result of the trial are well defined
            per = {k2: v for k2, v in per.items() if len(v) == len(lst)}
            cmp_stats(o, "A:per_trial", st.trial_metric_statistics[t], per, len(lst))
        per = {}
        for t, res in handed_all:
            for k2, v in res.items():
                per.setdefault(k2, []).append(v)
        per = {k2: v for k2, v in per.items() if len(v) == len(handed_all)}
        cmp_stats(o, "A:overall", st.overall_metric_statistics, per, len(handed_all))
    # ---- best configuration (tuner)
    vals = [(t, res["loss"]) for t, res in handed_all if "loss" in res and _isnum(res["loss"]) and not _isnan(float(res["loss"]))]
    if vals:
        opt = min(v for _, v in vals) if mode == "min" else max(v for _, v in vals)
        best_trials = {t for t, v in vals if v == opt}
        try:
            import contextlib
            import io

            with contextlib.redirect_stdout(io.StringIO()):
                bt, bc = r.tuner.best_config()
            o.count("A:best_config_decided")
            if bt not in best_trials:
                o.violate("best_configuration", f"A:tuner_best_config_is_not_an_optimal_trial:{mode}", {"got": bt, "optimal": sorted(best_trials), "optimum": opt})
            elif bc != r.backend._trial_dict[bt].config or {k2: v for k2, v in bc.items()} != cur_cfg.get(bt):
                o.violate("best_configuration", "A:tuner_best_config_configuration_is_not_that_of_the_trial", {"got": bc, "trial_config": cur_cfg.get(bt)})
        except Exception as e:  # noqa: BLE001
            o.violate("best_configuration", f"A:tuner_best_config_raised:{type(e).__name__}", {"error": repr(e)[:300]})
        # loaded experiment
        try:
            from syne_tune.experiments import load_experiment

            ex = load_experiment(r.tuner.name, download_if_not_found=False)
            if ex.results is None:
                o.violate("best_configuration", "A:loaded_experiment_has_no_results", {})
            else:
                bcfg = ex.best_config()
                o.count("A:loaded_best_config_decided")
                col = [row.get("loss") for row in rows]
                colv = [v for v in col if _isnum(v) and not _isnan(float(v))]
                if colv:
                    topt = min(colv) if mode == "min" else max(colv)
                    if not _eqv(float(bcfg.get("loss", float("nan"))), float(topt)) and abs(float(bcfg.get("loss", float("nan"))) - float(topt)) > 1e-12 * max(1.0, abs(topt)):
                        o.violate("best_configuration", f"A:loaded_best_config_does_not_attain_table_optimum:{mode}", {"got": bcfg.get("loss"), "optimum": topt})
        except Exception as e:  # noqa: BLE001
            o.violate("best_configuration", f"A:load_experiment_best_config_raised:{type(e).__name__}", {"error": repr(e)[:300]})
    # ---- several objectives: the best configuration per metric, by index and by name, each with its own mode
    try:
        names, modes = r.scheduler.metric_names(), r.scheduler.metric_mode()
    except Exception:  # noqa: BLE001
        names, modes = [], None
    if isinstance(modes, list) and len(names) > 1:
        import contextlib
        import io

        for mi, (name, md) in enumerate(zip(names, modes)):
            vv = [(t, res[name]) for t, res in handed_all if name in res and _isnum(res[name]) and not _isnan(float(res[name]))]
            if not vv:
                continue
            optm = min(v for _, v in vv) if md == "min" else max(v for _, v in vv)
            bestm = {t for t, v in vv if v == optm}
            for arg in (mi, name):
                try:
                    with contextlib.redirect_stdout(io.StringIO()):
                        bt, bc = r.tuner.best_config(metric=arg)
                    o.count("A:best_config_per_metric_decided")
                    if md != modes[0]:
                        o.count("A:best_config_per_metric_decided:mode_differs_from_first_metric")
                    if bt not in bestm:
                        o.violate("best_configuration", f"A:tuner_best_config_for_metric_{mi}_is_not_optimal:{md}:first_metric_{modes[0]}",
                                  {"metric": name, "arg": arg, "got": bt, "optimal": sorted(bestm), "optimum": optm})
                        break
                except Exception as e:  # noqa: BLE001
                    o.violate("best_configuration", f"A:tuner_best_config_raised:{type(e).__name__}", {"error": repr(e)[:300], "metric": arg})
                    break
    # ---- the experiment is continued at another path (what Tuner.load does on a different machine: tuner_path is recomputed,
    # the callback objects travel with the tuner) with a relaxed criterion: the table keeps the rows of the first part
    if not sim and r.exc is None and st is not None and rows and not p.get("abort_by_failures") and random.Random(spec["seed"] + 5).random() < 0.35:
        from pathlib import Path

        from syne_tune import StoppingCriterion

        first_part = len(rows)
        old_path = str(r.tuner.tuner_path)
        r.tuner.tuner_path = Path(old_path + "-resumed-elsewhere")
        r.tuner.stop_criterion = StoppingCriterion(max_num_trials_started=st.num_trials_started + 3,
                                                   max_num_evaluations=st.overall_metric_statistics.count + 25)
        r.run()
        o.count("A:continued_at_other_path")
        if r.exc is not None and type(r.exc).__name__ != "LoopBoundExceeded":
            o.violate("run_completes", f"A:continued_run_raised:{type(r.exc).__name__}", {"error": repr(r.exc)[:300], "kind": kind})
        elif r.exc is None:
            deliv_all = []
            pend2 = None
            for idx, k, pl in r.rec.events:
                if k == "s.on_trial_result.call":
                    pend2 = pl["trial_id"]
                elif k == "s.on_trial_result.ret" and pend2 is not None:
                    deliv_all.append(pend2)
                    pend2 = None
            rows2 = list(r.store_cb.results)
            o.count("A:rows_compared_after_continuation", len(rows2))
            if [row.get("trial_id") for row in rows2] != deliv_all:
                o.violate("one_row_per_delivered_result", "A:table_after_continuation_at_other_path_is_not_one_row_per_delivered_result",
                          {"rows": len(rows2), "deliveries": len(deliv_all), "rows_of_first_part": first_part,
                           "first_row_trials": [row.get("trial_id") for row in rows2][:10], "first_delivered_trials": deliv_all[:10]})
            else:
                path2 = os.path.join(str(r.tuner.tuner_path), "results.csv.zip")
                if not os.path.exists(path2):
                    o.violate("read_back", "A:results_file_missing_after_continuation", {"path": path2})
                elif len(pd.read_csv(path2)) != len(rows2):
                    o.violate("read_back", "A:csv_row_count_differs_after_continuation", {"csv": len(pd.read_csv(path2)), "rows": len(rows2)})
            # statistics and best configuration of the continued experiment cover everything handed to the loop, in both parts
            handed2, ended = [], False
            for idx, k, pl in r.rec.events:
                if k == "c.tuning_start":
                    ended = False
                elif k == "c.tuning_end":
                    ended = True
                elif k == "b.fetch_status_results.ret" and not ended:
                    handed2.extend((t, res) for t, res in pl["ret"]["results"])
            st2 = r.tuner.tuning_status
            if st2 is not None and len(handed2) > len(handed_all):
                o.count("A:statistics_compared_after_continuation")
                per = {}
                for t, res in handed2:
                    for k2, v in res.items():
                        per.setdefault(k2, []).append(v)
                per = {k2: v for k2, v in per.items() if len(v) == len(handed2)}
                cmp_stats(o, "A:overall_after_continuation", st2.overall_metric_statistics, per, len(handed2))
                vals2 = [(t, res["loss"]) for t, res in handed2 if "loss" in res and _isnum(res["loss"]) and not _isnan(float(res["loss"]))]
                if vals2 and not isinstance(modes, list):
                    opt2 = min(v for _, v in vals2) if mode == "min" else max(v for _, v in vals2)
                    best2 = {t for t, v in vals2 if v == opt2}
                    try:
                        import contextlib
                        import io

                        with contextlib.redirect_stdout(io.StringIO()):
                            bt2, _bc2 = r.tuner.best_config()
                        if bt2 not in best2:
                            o.violate("best_configuration", f"A:tuner_best_config_after_continuation_is_not_an_optimal_trial:{mode}",
                                      {"got": bt2, "optimal": sorted(best2), "optimum": opt2, "optimum_in_first_part": all(
                                          not (v == opt2) for _t, v in vals2[len(handed_all):])})
                    except Exception as e:  # noqa: BLE001
                        o.violate("best_configuration", f"A:tuner_best_config_raised_after_continuation:{type(e).__name__}", {"error": repr(e)[:300]})
        import shutil

        shutil.rmtree(str(r.tuner.tuner_path), ignore_errors=True)
        r.tuner.tuner_path = Path(old_path)
    n_nan = sum(1 for t, res in handed_all for v in res.values() if _isnum(v) and _isnan(float(v)))
    o.set_sig(("A", kind, spec["backend"], len(rows), len(started), skipped_in_batch, n_nan > 0), nontrivial=len(rows) >= 3)
    o.sample = {"part": "A", "kind": kind, "backend": spec["backend"], "rows": len(rows), "handed": n_handed, "trials": len(started),
                "results_update_interval": p["results_update_interval"], "nan_values": n_nan,
                "first_row_keys": sorted(rows[0].keys())[:20] if rows else None}
    _cleanup(r)


def _cleanup(r):
    import shutil

    shutil.rmtree(str(r.tuner.tuner_path), ignore_errors=True)


# ------------------------------------------------------------------------------------ part B
def run_part_b(spec, o):
    import contextlib
    import io

    from syne_tune.backend.trial_status import Status
    from syne_tune.tuning_status import TuningStatus, print_best_metric_found
    from stv.vtuner import make_trial

    rng = random.Random(spec["seed"])
    o.count("B:histories")
    n_trials = rng.randint(1, 8)
    metrics = ["m%d" % i for i in range(rng.randint(1, 4))]
    kinds = {m: rng.choice(["float", "float", "int", "nan_mix", "inf_mix", "ties", "string"]) for m in metrics}
    kinds[metrics[0]] = rng.choice(["float", "nan_mix", "ties", "int", "inf_mix", "str_mix"])

    def val(m):
        k = kinds[m]
        if k == "float":
            return rng.uniform(-5, 5)
        if k == "int":
            return rng.randint(-3, 3)
        if k == "nan_mix":
            return rng.choice([float("nan"), rng.uniform(-1, 1), rng.uniform(-1, 1)])
        if k == "inf_mix":
            return rng.choice([float("inf"), float("-inf"), rng.uniform(-1, 1), rng.uniform(-1, 1)])
        if k == "ties":
            return float(rng.randint(0, 2))
        if k == "str_mix":  # a metric for which some report carries a string / None (say 'n/a' before the first validation)
            return rng.choice(["n/a", None]) if rng.random() < 0.12 else rng.uniform(-5, 5)
        return rng.choice(["a", "b", "nan", ""])

    st = TuningStatus(metric_names=metrics)
    trials = {t: make_trial(t, {"x": t}) for t in range(n_trials)}
    per_trial = {t: [] for t in trials}
    overall = []
    has_nan = has_tie = False
    for step in range(rng.randint(1, 12)):
        ts = rng.sample(sorted(trials), rng.randint(1, n_trials))
        status = {t: (trials[t], rng.choice([Status.in_progress, Status.completed, Status.stopped])) for t in ts}
        new = []
        for _ in range(rng.randint(0, 6)):
            t = rng.choice(ts)
            res = {m: val(m) for m in metrics}
            new.append((t, res))
            per_trial[t].append(res)
            overall.append((t, res))
        st.update(trial_status_dict=status, new_results=new)
    for t, lst in per_trial.items():
        if not lst:
            continue
        per = {m: [r_[m] for r_ in lst] for m in metrics}
        cmp_stats(o, "B:per_trial", st.trial_metric_statistics[t], per, len(lst))
    if overall:
        per = {m: [r_[m] for _, r_ in overall] for m in metrics}
        cmp_stats(o, "B:overall", st.overall_metric_statistics, per, len(overall))
        for m in metrics:
            vs = [v for v in per[m] if _isnum(v)]
            if any(_isnan(float(v)) for v in vs):
                has_nan = True
            fin = [float(v) for v in vs if not _isnan(float(v))]
            if len(fin) != len(set(fin)):
                has_tie = True
    if has_nan:
        o.count("B:histories_with_nan")
    if has_tie:
        o.count("B:histories_with_ties")
    # best trial for the first metric, both modes
    m0 = metrics[0]
    mixed = kinds[m0] == "str_mix" and any(not _isnum(r_[m0]) for _, r_ in overall)
    if mixed:
        o.count("B:histories_with_non_numeric_reports_of_the_queried_metric")
    for mode in ("min", "max"):
        vals = [(t, float(r_[m0])) for t, r_ in overall if _isnum(r_[m0]) and not _isnan(float(r_[m0]))]
        if not vals:
            continue
        opt = min(v for _, v in vals) if mode == "min" else max(v for _, v in vals)
        best = {t for t, v in vals if v == opt}
        if mixed:
            # statistics are 'tracked for numeric types only': a trial's running statistics stop at its first non-numeric value.
            # Judged only where both readings (all numeric values / the values up to a trial's first non-numeric one) agree.
            pre = []
            for t, lst in per_trial.items():
                for r_ in lst:
                    if not _isnum(r_[m0]):
                        break
                    if not _isnan(float(r_[m0])):
                        pre.append((t, float(r_[m0])))
            if not pre:
                continue
            opt2 = min(v for _, v in pre) if mode == "min" else max(v for _, v in pre)
            if opt2 != opt or {t for t, v in pre if v == opt2} != best:
                o.count("B:non_numeric_mix_ambiguous_not_judged")
                continue
            o.count("B:best_decided_with_non_numeric_reports")
        if (mode == "min" and opt == float("inf")) or (mode == "max" and opt == float("-inf")):
            # every value is the worst possible one: trials without any value tie with it
            o.count("B:degenerate_worst_possible_optimum")
            continue
        with contextlib.redirect_stdout(io.StringIO()):
            got = print_best_metric_found(st, metric_names=[m0], mode=mode)
        o.count("B:best_decided")
        if got is None or got[0] not in best or not _eqv(float(got[1]), opt):
            o.violate("best_configuration", f"B:print_best_metric_found_is_not_optimal:{mode}" + (":with_nan" if kinds[m0] == "nan_mix" else ""),
                      {"got": None if got is None else [got[0], repr(got[1])], "optimal_trials": sorted(best), "optimum": opt})
    o.set_sig(("B", n_trials, tuple(sorted(kinds.values())), len(overall)), nontrivial=len(overall) >= 3)
    o.sample = {"part": "B", "trials": n_trials, "metric_kinds": kinds, "results": len(overall)}


def run_case(spec):
    o = Obs()
    if spec["part"] == "A":
        run_part_a(spec, o)
    else:
        run_part_b(spec, o)
    return o.result()
