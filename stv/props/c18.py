"""C18 — metrics reported by a training script arrive unchanged at the tuner.

Monitor: the real ``Reporter`` writes to a real file through ``sys.stdout`` while a generated
script interleaves arbitrary other output; the file is then read back with ``readlines()``
exactly as ``LocalBackend.stdout`` does and parsed by the real ``retrieve``. The oracle compares
the retrieved list with the list of reports the script made (NaN-aware, numpy scalars replaced
by ``.item()``), checks counter / time-stamp monotonicity, and checks that rejected reports
(reserved key, unserialisable value, oversized payload) raise at the call, emit no tagged line
and leave later reports intact.
"""
import math
import os
import random
import sys

from stv import envshim  # noqa: F401
from stv.obs import Obs

import numpy as np

ID = "C18"
LEVEL = "exploration"
RULE = (
    "case = seeded script of 3..30 steps, each a Reporter()(**dict) call or a raw write of other "
    "output (with/without newline, braces, brackets, quotes, CR, unicode, tag fragments); dicts are "
    "built from hostile value classes (strings containing the tag / braces / newlines, NaN/inf, every "
    "numpy scalar type, nesting up to depth 4) plus rejected reports (st_ key, set/bytes/object/ndarray/"
    "complex values, >60kB payload). Distinct = digest of the sequence of (step kind, value classes); "
    "non-trivial = at least one accepted report and at least one hostile class or noise step."
)
ASSUMPTIONS = [
    "reports use string keys and JSON's data model (lists, dicts, str, numbers, bool, None nested)",
    "other output never contains the full metric tag '[tune-metric]' (a forged tag is a report by protocol)",
    "stdout is captured in a file and read back with readlines(), as LocalBackend does",
    "oversized means clearly above the limit (>= 60 000 characters); the exact threshold is not tested",
]
CASE_TIMEOUT = 60


def preload():
    import syne_tune.report  # noqa: F401


def cases(tier, seed):
    n = 20000 if tier == "quick" else 400000
    out = [{"seed": seed * 1000003 + i, "steps": 3 + (i % 28)} for i in range(n)]
    # real worker processes of the real LocalBackend, paused and resumed (the capture files are opened by the backend itself);
    # spread over the case list so that they run on different cores
    m = 12 if tier == "quick" else 96
    for j in range(m):
        out.insert((j * n) // m, {"seed": seed * 1000003 + 700000 + j, "engine": "procs"})
    return out


def floors(tier):
    f = 500 if tier == "quick" else 10000
    return {
        "reports_accepted": 20 * f,
        "cls:tag_in_string": f,
        "cls:newline_in_string": f,
        "cls:brace_string": f,
        "cls:nan_inf": f,
        "cls:np_scalar": f,
        "cls:nested_deep": f,
        "cls:unicode": f,
        "cls:unicode_line_boundary": f,
        "read_back_through_LocalBackend.stdout": 10 * f,
        "polls_during_script": 10 * f,
        "decided:unterminated_lines_parse_alike": 10 * f,
        "cls:long_multibyte_output": f,
        "noise:no_newline_before_report": f,
        "rejected:reserved_key": f // 2,
        "rejected:unserialisable": f // 2,
        "rejected:oversized": f // 10,
        "procs:jobs_resumed_with_earlier_reports": 6 if tier == "quick" else 50,
        "procs:reports_delivered": 35 if tier == "quick" else 300,
    }


TAG = "[tune-metric]"
NP_SCALARS = [
    np.float64, np.float32, np.float16, np.int64, np.int32, np.int16, np.int8,
    np.uint8, np.uint16, np.uint32, np.uint64, np.bool_,
]
NASTY_STR = [
    "{", "}", "{}", "}{", "[", "]", '"', "'", "\\", "\n", "\r", "\r\n", "\t", "{\"a\": 1}",
    "]: {", "tune-metric", "[tune-metric", "tune-metric]: {}", TAG + ": {\"x\": 1}", TAG,
    "é", "日本", " ", "\x00", "\u2029", "\x85", "\x0b", "\x0c", "\x1c", "\x1d", "\x1e", "a\u2028}b", "😀", "NaN", "Infinity", "null", "}\n" + TAG + ": {\"forged\": 1}",
]


def _rand_str(rng, classes):
    k = rng.randint(0, 4)
    parts = []
    for _ in range(k):
        if rng.random() < 0.6:
            s = rng.choice(NASTY_STR)
            parts.append(s)
            if TAG in s:
                classes.add("tag_in_string")
            if "\n" in s or "\r" in s:
                classes.add("newline_in_string")
            if s in ("{", "}", "{}", "}{"):
                classes.add("brace_string")
            if any(ord(c) > 127 for c in s):
                classes.add("unicode")
            if any(c in s for c in "\u2028\u2029\x85\x0b\x0c\x1c\x1d\x1e"):
                classes.add("unicode_line_boundary")
        else:
            parts.append("".join(rng.choice("abc xyz019_-:") for _ in range(rng.randint(0, 6))))
    return "".join(parts)


def _rand_value(rng, classes, depth=0):
    r = rng.random()
    if depth < 4 and r < 0.18:
        n = rng.randint(0, 3)
        if depth >= 2:
            classes.add("nested_deep")
        return [_rand_value(rng, classes, depth + 1) for _ in range(n)]
    if depth < 4 and r < 0.32:
        n = rng.randint(0, 3)
        if depth >= 2:
            classes.add("nested_deep")
        return {_rand_key(rng, classes) or "k": _rand_value(rng, classes, depth + 1) for _ in range(n)}
    if r < 0.5:
        return _rand_str(rng, classes)
    if r < 0.58:
        classes.add("nan_inf")
        return rng.choice([float("nan"), float("inf"), float("-inf")])
    if r < 0.75:
        classes.add("np_scalar")
        t = rng.choice(NP_SCALARS)
        if t is np.bool_:
            return np.bool_(rng.random() < 0.5)
        if np.issubdtype(t, np.integer):
            info = np.iinfo(t)
            return t(rng.choice([info.min, info.max, 0, 1, rng.randint(int(info.min), int(info.max))]))
        return t(rng.choice([0.1, -2.5, 1e-7, 123.456, float("nan"), 65504.0]))
    if r < 0.85:
        return rng.choice([0, 1, -1, 2**31, 2**63, -(2**63), 10**30, rng.randint(-1000, 1000)])
    if r < 0.95:
        return rng.choice([0.1, -0.0, 1e-300, 1.7976931348623157e308, 5e-324, rng.uniform(-1e6, 1e6), 1 / 3])
    if depth > 0:
        return rng.choice([True, False, None])
    return rng.choice([True, False])


def _rand_key(rng, classes):
    if rng.random() < 0.7:
        return rng.choice(["loss", "epoch", "acc", "x", "y", "s_t", "t_st_", "_st", "St_x", "st", "a b", "ключ", ""]) + str(
            rng.randint(0, 5)
        )
    return _rand_str(rng, classes) or "k"


def _norm(v):
    """What JSON transport is documented to deliver: numpy scalars -> .item()."""
    if isinstance(v, np.generic):
        return v.item()
    if isinstance(v, list):
        return [_norm(x) for x in v]
    if isinstance(v, dict):
        return {k: _norm(x) for k, x in v.items()}
    return v


def _eq(a, b):
    if isinstance(a, bool) or isinstance(b, bool):
        return type(a) is type(b) and a == b
    if isinstance(a, float) and isinstance(b, float):
        if math.isnan(a) or math.isnan(b):
            return math.isnan(a) and math.isnan(b)
        return a == b and math.copysign(1, a) == math.copysign(1, b)
    if isinstance(a, (int, float)) and isinstance(b, (int, float)):
        # ints travel as ints, floats as floats
        return type(a) is type(b) and a == b
    if isinstance(a, list) and isinstance(b, list):
        return len(a) == len(b) and all(_eq(x, y) for x, y in zip(a, b))
    if isinstance(a, dict) and isinstance(b, dict):
        return a.keys() == b.keys() and all(_eq(a[k], b[k]) for k in a)
    return type(a) is type(b) and a == b


class _Unser:
    pass


def _bad_value(rng, kind=None):
    kind = kind or rng.choice(["set", "bytes", "object", "ndarray", "complex", "nested_set", "nested_ndarray"])
    v = {
        "set": {1, 2},
        "bytes": b"abc",
        "object": _Unser(),
        "ndarray": np.arange(3),
        "complex": 1 + 2j,
        "nested_set": {"a": [1, {3}]},
        "nested_ndarray": [np.zeros(2)],
    }[kind]
    return kind, v


def _noise(rng, classes):
    s = _rand_str(rng, classes).replace(TAG, "[tune-metri c]")
    s += rng.choice(["", "", "log line", "{", "}", "{\"a\": 1}", "[tune-metric", "tune-metric]: {\"z\": 0}", "]: {}"])
    if rng.random() < 0.25:
        # progress bars / banners: long runs of multi-byte characters (many more bytes than characters)
        s += rng.choice(["\u2588", "\u2591\u2592", "\U0001F600", "\u00e9", "\u65e5\u672c"]) * rng.randint(10, 120)
        classes.add("long_multibyte_output")
    nl = rng.random() < 0.6
    return s + ("\n" if nl else ""), nl


_BE = {}


def _backend():
    """One LocalBackend per worker process (only its path handling and stdout() are used)."""
    # a fresh backend object per case: state a backend keeps between polls (read positions, caches) must not leak from one
    # generated script into the next one, and must be exercised by the polls within the case
    from syne_tune.backend import LocalBackend

    _BE["n"] = _BE.get("n", 0) + 1
    be = LocalBackend(entry_point=os.path.abspath(__file__))
    be.set_path(results_root=envshim.scratch_dir(), tuner_name=f"c18-{os.getpid()}-{_BE['n'] % 50}")
    return be


PROC_SCRIPT = """
import json, sys, time
from argparse import ArgumentParser
from syne_tune import Reporter
p = ArgumentParser()
p.add_argument("--plan", type=str)
p.add_argument("--leg", type=int)
a, _ = p.parse_known_args()
leg = json.load(open(a.plan))["legs"][a.leg]
report = Reporter()
for kind, item in leg["items"]:
    if kind == "noise":
        sys.stdout.write(item)
    else:
        report(**item)
sys.stdout.flush()
if leg["wait"]:
    time.sleep(600)
"""


def run_procs_case(spec):
    """Real LocalBackend, real worker processes: a trial reports, is paused (or stopped at the end), resumed with a new job
    that reports again, ...; everything fetch_status_results delivers for the trial, and what retrieve(stdout(trial))
    parses at the end, must be the reports of all legs, unchanged, once, in order."""
    import json
    import time

    from syne_tune.backend import LocalBackend
    from syne_tune.backend.trial_status import Status
    from syne_tune.report import retrieve

    o = Obs()
    rng = random.Random(spec["seed"])
    root = os.path.join(envshim.scratch_dir(), f"procs-{os.getpid()}-{spec['seed']}")
    os.makedirs(root, exist_ok=True)
    script = os.path.join(root, "train_script.py")
    with open(script, "w") as fh:
        fh.write(PROC_SCRIPT)
    n_legs = rng.randint(2, 3)
    legs, expected, step = [], [], 0
    for leg in range(n_legs):
        items = []
        for _ in range(rng.randint(0 if leg else 1, 5)):
            if rng.random() < 0.25:
                items.append(["noise", rng.choice(["some other output\n", "x", "epoch done {1}\n", "\n"])])
            rep = {"step": step, "value": rng.choice([step * 0.5, -1e-7 * step, float(step), str(step)]), "leg": f"leg-{leg}"}
            if rng.random() < 0.3:
                rep["extra"] = [1, {"a": None}, "z"]
            items.append(["report", rep])
            expected.append(rep)
            step += 1
        legs.append({"items": items, "wait": leg < n_legs - 1})
    plan = os.path.join(root, "plan.json")
    json.dump({"legs": legs}, open(plan, "w"))
    old_pp = os.environ.get("PYTHONPATH")
    os.environ["PYTHONPATH"] = envshim.REPO + (os.pathsep + old_pp if old_pp else "")
    be = LocalBackend(entry_point=script)
    be.set_path(results_root=root, tuner_name="procs")
    received = []
    deadline = time.time() + 45

    def strip(m):
        return {k: v for k, v in m.items() if not k.startswith("st_")}

    def poll(tid):
        _, results = be.fetch_status_results([tid])
        received.extend(strip(m) for t, m in results if t == tid)

    try:
        n_exp = 0
        tid = None
        for leg in range(n_legs):
            cfg = {"plan": plan, "leg": leg}
            if leg == 0:
                tid = be.start_trial(config=cfg).trial_id
            else:
                if n_exp > 0:
                    o.count("procs:jobs_resumed_with_earlier_reports")
                be.resume_trial(tid, new_config=cfg)
            n_exp += sum(1 for k, _ in legs[leg]["items"] if k == "report")
            last = leg == n_legs - 1
            while time.time() < deadline:
                poll(tid)
                if last and be._trial_dict[tid].status == Status.completed:
                    break
                if not last and len(received) >= n_exp:
                    break
                time.sleep(0.05)
            else:
                o.inconclusive("procs:worker_process_too_slow")
                return o.result()
            if not last:
                be.pause_trial(tid)
                poll(tid)
        poll(tid)
        parsed = [strip(m) for m in retrieve(be.stdout(tid))]
    except Exception as e:  # noqa: BLE001
        o.violate("no_raise", f"procs:raised:{type(e).__name__}", {"error": repr(e)[:300]})
        return o.result()
    finally:
        try:
            be.stop_all()
        except Exception:  # noqa: BLE001
            pass
        if old_pp is None:
            os.environ.pop("PYTHONPATH", None)
        else:
            os.environ["PYTHONPATH"] = old_pp
    o.count("procs:cases")
    o.count("procs:reports_delivered", len(received))
    det = {"legs": [[it for k, it in lg["items"] if k == "report"] for lg in legs]}
    if received != expected:
        how = "lost" if len(received) < len(expected) else "duplicated_or_extra" if len(received) > len(expected) else "altered"
        o.violate("delivered_unchanged", f"procs:reports_of_paused_and_resumed_trial:{how}",
                  dict(det, received=received[:12], expected=expected[:12]))
    elif parsed != expected:
        o.violate("delivered_unchanged", "procs:captured_output_of_all_jobs_does_not_parse_to_the_reports",
                  dict(det, parsed=parsed[:12], expected=expected[:12]))
    o.set_sig(("procs", n_legs, tuple(len(d) for d in det["legs"])), nontrivial=len(expected) > 0)
    return o.result()


def run_case(spec):
    if spec.get("engine") == "procs":
        return run_procs_case(spec)
    from syne_tune.report import Reporter, retrieve
    from syne_tune.constants import ST_WORKER_ITER, ST_WORKER_TIMESTAMP, ST_WORKER_TIME

    o = Obs()
    rng = random.Random(spec["seed"])
    # the file is the std.out of trial 0 of a real LocalBackend and is read back through its stdout() method
    be = _backend()
    tdir = str(be.trial_path(trial_id=0))
    os.makedirs(tdir, exist_ok=True)
    path = os.path.join(tdir, "std.out")
    expected = []  # accepted reports, normalised
    script_sig = []
    hostile = False
    add_time = rng.random() < 0.8
    if "add_time" in spec:  # deterministic reproducers (known_findings.json)
        add_time = spec["add_time"]
    reporter = Reporter(add_time=add_time, add_cost=rng.random() < 0.5)
    real_stdout = sys.stdout
    f = open(path, "w")
    last_was_noise_no_nl = False
    noise_tail = ""
    polls = []
    try:
        sys.stdout = f
        for step in range(spec["steps"]):
            r = rng.random()
            classes = set()
            if r < 0.3:
                text, nl = _noise(rng, classes)
                # other output must not contain the full tag, also not across two writes
                if TAG in (noise_tail + text):
                    text = text.replace("]", ")")
                noise_tail = "" if nl else (noise_tail + text)[-40:]
                sys.stdout.write(text)
                last_was_noise_no_nl = bool(text) and not nl
                script_sig.append(("noise", nl, tuple(sorted(classes))))
                hostile = True
                if "long_multibyte_output" in classes:
                    o.count("cls:long_multibyte_output")
                continue
            nkeys = rng.randint(1, 4)
            d = {}
            for _ in range(nkeys):
                k = _rand_key(rng, classes)
                if k.startswith("st_"):
                    k = "x" + k
                d[k] = _rand_value(rng, classes)
                if d[k] is None:
                    d[k] = 0
            reject = None
            if r < 0.38:
                reject = "reserved_key"
                d[rng.choice(["st_x", "st_worker_iter", "st_", "st_worker_time"])] = 1
            elif r < 0.46 or (spec.get("bad_kind") and step == 1):
                kind, bad = _bad_value(rng, spec.get("bad_kind"))
                reject = "unserialisable"
                d["bad"] = bad
                classes.add("bad_" + kind)
            elif r < 0.48:
                reject = "oversized"
                d["big"] = "x" * rng.choice([60000, 100000])
            pos_before = f.tell()
            f.flush()
            raised = None
            try:
                reporter(**dict(d))
            except Exception as e:  # noqa: BLE001 - the property is about *any* rejection
                raised = e
            f.flush()
            if reject is not None:
                o.count("rejected:" + reject)
                if raised is None:
                    bk = [c for c in classes if c.startswith("bad_")]
                    o.violate(
                        "rejection",
                        f"{reject}_report_not_rejected" + (":" + bk[0][4:].replace("nested_", "") if bk else ""),
                        {"report": d},
                    )
                    # the stream now carries a corrupted report; what was emitted is not expected
                    # to equal d, so drop the line from the comparison by truncating the oracle:
                    expected.append(None)
                script_sig.append(("reject", reject))
                # a message may be printed by the reporter; it must not contain the tag:
                continue
            if raised is not None:
                o.violate(
                    "acceptance",
                    "serialisable_report_raised:" + type(raised).__name__,
                    {"report": d, "error": repr(raised)[:300]},
                )
                script_sig.append(("raised",))
                continue
            o.count("reports_accepted")
            noise_tail = ""
            for c in classes:
                o.count("cls:" + c)
            if last_was_noise_no_nl:
                o.count("noise:no_newline_before_report")
            last_was_noise_no_nl = False
            if classes:
                hostile = True
            expected.append(_norm(d))
            script_sig.append(("report", tuple(sorted(classes))))
            if rng.random() < 0.5 and None not in expected:
                # the tuner polls while the script is still running: everything reported so far, once, unchanged
                sys.stdout.flush()
                sys.stdout = real_stdout
                try:
                    got_now = retrieve(log_lines=be.stdout(0))
                    o.count("polls_during_script")
                    if len(got_now) != len(expected):
                        o.violate("exactly_those_reports", "poll_during_script:retrieved_count_differs",
                                  {"expected": len(expected), "got": len(got_now), "poll": len(polls)})
                    else:
                        for e_, g_ in zip(expected, got_now):
                            if not _eq(e_, {k_: v_ for k_, v_ in g_.items() if not k_.startswith("st_")}):
                                o.violate("unchanged", "poll_during_script:report_altered_in_transport", {"sent": e_, "got": g_})
                                break
                    polls.append(len(got_now))
                except Exception as e:  # noqa: BLE001
                    o.violate("parse", "poll_during_script:retrieve_raised:" + type(e).__name__, {"error": repr(e)[:300]})
                finally:
                    sys.stdout = f
    finally:
        sys.stdout = real_stdout
        f.close()
    lines = be.stdout(0)
    o.count("read_back_through_LocalBackend.stdout")
    os.unlink(path)
    try:
        got = retrieve(log_lines=lines)
    except Exception as e:  # noqa: BLE001
        o.violate("parse", "retrieve_raised:" + type(e).__name__, {"error": repr(e)[:300], "lines": lines[:20]})
        got = None
    if got is not None:
        # line terminators carry no meaning: the same log handed over as lines WITHOUT their trailing newline (how a caller
        # that split the captured text itself, or a log service delivering one message per line, passes it) parses alike
        try:
            got2 = retrieve(log_lines="".join(lines).split("\n"))
            o.count("decided:unterminated_lines_parse_alike")
            if got2 != got and not (len(got2) == len(got) and all(_eq(a_, b_) for a_, b_ in zip(got, got2))):
                o.violate("exactly_those_reports", "lines_without_trailing_newline_parse_differently",
                          {"terminated": len(got), "unterminated": len(got2)})
        except Exception as e:  # noqa: BLE001
            o.violate("parse", "retrieve_raised_on_lines_without_trailing_newline:" + type(e).__name__, {"error": repr(e)[:300]})
    if got is not None:
        o.count("retrieve_calls")
        if len(got) != len(expected):
            o.violate(
                "exactly_those_reports",
                "retrieved_count_differs" if None not in expected else "retrieved_count_differs_after_bad_report",
                {"expected": len(expected), "got": len(got), "lines": lines[:30]},
            )
        else:
            last_iter, last_ts = None, None
            for i, (e, g) in enumerate(zip(expected, got)):
                if e is None:
                    continue  # already reported above (rejection clause)
                extra = {k: v for k, v in g.items() if k.startswith("st_")}
                user = {k: v for k, v in g.items() if not k.startswith("st_")}
                o.count("reports_compared")
                if not _eq(e, user):
                    o.violate("unchanged", "report_altered_in_transport", {"sent": e, "got": user})
                it = extra.get(ST_WORKER_ITER)
                ts = extra.get(ST_WORKER_TIMESTAMP)
                if not isinstance(it, int) or (last_iter is not None and not it > last_iter):
                    o.violate("counter", "report_counter_not_strictly_increasing", {"prev": last_iter, "cur": it})
                if not isinstance(ts, float) or (last_ts is not None and ts < last_ts):
                    o.violate("timestamps", "timestamp_decreasing", {"prev": last_ts, "cur": ts})
                last_iter, last_ts = it, ts
                if reporter.add_time and ST_WORKER_TIME not in extra:
                    o.violate("timestamps", "worker_time_missing", extra)
    o.set_sig(script_sig, nontrivial=bool(expected) and hostile)
    o.sample = {"script": [list(map(str, s)) for s in script_sig][:12], "n_lines": len(lines), "n_retrieved": None if got is None else len(got)}
    return o.result()
