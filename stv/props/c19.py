"""C19 — multi-objective ranking is Pareto-consistent and MOASHA follows it.

Two monitors, both executing the repository's code on generated inputs:

* **sets** — ``pareto_efficient`` and ``nondominated_sort`` are called on generated point sets
  (integer grids with heavy ties and exact duplicates, continuous, chains, antichains) and every
  output is compared with a brute-force reference written from the definition
  (``stv/refmodels/pareto.py``): the efficient mask, distinct indices / all indices / exactly
  ``min(max_items, N)`` of them with complete earlier layers, brute-force layer number non-decreasing
  along the output, un-flattened lists == layers, and (docstring of ``compute_epsilon_net`` /
  ``NonDominatedPriority``: the seed / first element of a front is the item with the lowest value in
  ``dim``) the first element of every layer minimises coordinate ``dim``.

* **moasha** — a real ``MOASHA`` is driven through its scheduler API (suggest / on_trial_add /
  on_trial_result / on_trial_remove / on_trial_complete) by a small virtual tuner: 1..8 concurrent
  trials report levels 1,2,3,... in a generated arrival order, objective vectors come from a generated
  table. The scheduler's priority object is wrapped *per instance* (its class is swapped for a
  recording subclass) so that every objective matrix it is given and every priority vector it returns
  is recorded; the bracket a trial was put in is read after ``on_trial_add`` (read-only). A reference
  model fed the same events decides every report:
  time >= max_t => STOP; no rung newly reached => CONTINUE; first arrival at a rung => CONTINUE;
  otherwise CONTINUE iff #{p < p_new}/n <= 1/rf (exact rational arithmetic) with p the recorded
  priority vector, n the number of entries incl. the new one. The matrix handed to the priority
  object must be the sign-adjusted (min: +, max: -) vectors of exactly the trials recorded at that
  rung plus the new one as last row. Priorities of ``FixedObjectivePriority`` and
  ``LinearScalarizationPriority`` are recomputed independently. A twin scheduler with all modes
  'min' fed the negated columns must take the same decisions. Result dicts list the metrics in generated key orders (per trial / per report, interleaved with the
  resource attribute and extra keys); the reference takes the objective vector by metric name, and a twin fed
  the same reports in canonical key order must take the same decisions. For non-dominated-sort priorities the
  decision is additionally confronted with the Pareto layers themselves: if *every* ranking that puts
  earlier layers before later ones gives the new trial the same verdict, MOASHA must give that verdict.
"""
import contextlib
import datetime
import io
import random
from fractions import Fraction

from stv import envshim  # noqa: F401
from stv.obs import Obs

import numpy as np

from stv.refmodels import pareto as ref

ID = "C19"
LEVEL = "exploration"
RULE = (
    "case kind 'set': one seeded point set (N 1..40, dim 1..5; kinds: integer grid 1..4 values per axis, "
    "grid with exact duplicate rows, continuous, continuous with duplicate rows, partly rounded columns, "
    "chains, antichains, one column repeated; int or float dtype) probed by pareto_efficient and 7..9 "
    "nondominated_sort calls (dim None / each kind of dim, max_items around N and around cumulative layer "
    "sizes, flatten on/off). Distinct = digest of (N, D, layer sizes, duplicate count, probes); non-trivial = "
    "N >= 2 and (>= 2 layers or tied coordinates). case kind 'moasha': one seeded schedule (1..5 metrics, "
    "rf in {2,3,4,2.5}, grace 1..3, max_t 1..30, 1..4 brackets (30%: 2..4 brackets with max_t 20..85, rf 2/3 and "
    "long-lived trials so that brackets >= 1 have several rungs that are reached), mode None/'min'/'max'/list, priority "
    "default/NonDominated(dim, max_num_samples None or 1..10)/Fixed/Linear(weights), 1..8 workers, 3..40 trials, arrival policy uniform / "
    "round-robin / starve-one / burst, eager or lazy suggest, integer-grid or continuous objective tables, "
    "early completions; in 40% of the schedules half or all trials are sparse reporters (every 2nd/3rd/5th level, "
    "first report at a later level) and in a third some self-ending trials complete with a final result at a new level; "
    "in 60% of the schedules 10-30% of the trials fail (on_trial_error) at a random point after >= 1 report; "
    "report dicts in canonical key order, all reversed, a fixed shuffled order per trial, or "
    "re-shuffled per report with the resource attribute and extra keys interleaved; per-objective scales/offsets so "
    "that permuted coordinates change the vector). Distinct = digest of the (trial, level, decision) sequence; non-trivial = at least "
    "one rung decision with recorded entries."
)
ASSUMPTIONS = [
    "objective values are finite numbers (no NaN / inf)",
    "max_items >= 1 and N >= 1 (max_items = 0 and empty inputs are not probed)",
    "most trials report every resource level 1,2,3,... (optionally shifted by +0.5); sparse reporters (stride 2/3/5, "
    "first report above the first rung levels) may reach several rung levels with one report: the report decides and "
    "is recorded at the first rung from the top with level <= resource at which the trial is not yet recorded, and "
    "only there (the behaviour of _Bracket.on_result; a later report or the completion call then fills one skipped "
    "lower rung); on_trial_complete gets the last result again (tuner contract) or, for some self-ending trials, a "
    "final result at a new level, and records it with the same rule and the same mode signs; the rung levels of bracket s are grace*rf^(k+s) <= max_t (exact arithmetic), the scheduler's own "
    "list is only compared with them (levels >= max_t are shadowed by the max_t stop and not judged)",
    "NonDominatedPriority(max_num_samples=k): the best k items (layer-consistent order) are ranked, the others share "
    "the worst priority, so an item at sorted position r has rank min(r, k)",
    "bracket assignment is MOASHA's own draw from the global numpy RNG (seeded per case) and is read back "
    "from the scheduler after on_trial_add; the priority object is observed through a recording subclass",
    "rank-rule verdicts use the priority vector the priority object returned; the Pareto-layer clause is "
    "only decided when every layer-consistent ranking agrees on the verdict",
    "a trial that fails (on_trial_error) after it was recorded at rungs stays one of 'all trials recorded at that rung'",
    "priority recomputation tolerance: 16 eps relative to the largest |weighted objective| of the row",
    "a trial's objective vector is defined by metric NAME in the order of the ``metrics`` argument; the key order "
    "of a result dict (and extra keys in it) carries no meaning",
]
CASE_TIMEOUT = 60

STOP, CONTINUE = "STOP", "CONTINUE"
_T0 = datetime.datetime(2024, 1, 1)


def preload():
    import syne_tune.optimizer.schedulers.multiobjective.moasha  # noqa: F401
    import syne_tune.optimizer.schedulers.multiobjective.multiobjective_priority  # noqa: F401
    import syne_tune.optimizer.schedulers.multiobjective.non_dominated_priority  # noqa: F401
    import syne_tune.config_space  # noqa: F401


def cases(tier, seed):
    n_sets, n_sched = (4000, 500) if tier == "quick" else (150000, 12000)
    base = seed * 1000003
    out = [{"kind": "set", "seed": base + i} for i in range(n_sets)]
    out += [{"kind": "moasha", "seed": base + 500000 + i} for i in range(n_sched)]
    random.Random(seed).shuffle(out)
    return out


def floors(tier):
    q = tier == "quick"
    return {
        "sets": 3500 if q else 140000,
        "sets_with_duplicates": 1000 if q else 40000,
        "sets_with_ties": 1500 if q else 60000,
        "sets_multi_layer": 1500 if q else 60000,
        "decided:pareto_efficient_points": 40000 if q else 1500000,
        "decided:sort_all_indices": 8000 if q else 300000,
        "decided:sort_max_items": 8000 if q else 300000,
        "decided:sort_unflattened": 5000 if q else 200000,
        "decided:sort_layer_order": 20000 if q else 800000,
        "decided:sort_dim_first_layers": 10000 if q else 400000,
        "schedules": 450 if q else 11000,
        "decided:rung_rank": 4000 if q else 100000,
        "decided:rung_rank_n>=3": 2000 if q else 60000,
        "decided:rung_rank_at_boundary": 300 if q else 8000,
        "rung_outcome:STOP": 1000 if q else 25000,
        "rung_outcome:CONTINUE": 1000 if q else 25000,
        "decided:first_arrival": 500 if q else 12000,
        "decided:max_t_stop": 300 if q else 8000,
        "decided:non_rung_continue": 3000 if q else 80000,
        "decided:matrix_rows_with_max_mode": 1500 if q else 40000,
        "decided:mode_twin_decisions": 3000 if q else 80000,
        "decided:priority_recomputed:fixed": 400 if q else 10000,
        "decided:priority_recomputed:linear": 400 if q else 10000,
        "decided:pareto_forced_verdict": 500 if q else 12000,
        "brackets>=2_used": 100 if q else 2500,
        # report dicts whose metric key order differs from the ``metrics`` argument / between trials
        "reports_with_noncanonical_key_order": 8000 if q else 200000,
        "decided:rung_rank_noncanonical_key_order": 2000 if q else 50000,
        "decided:rung_rank_mixed_key_orders_at_rung": 1500 if q else 40000,
        "decided:rung_rank_key_order_sensitive": 2000 if q else 50000,
        "decided:rung_rank_key_order_changes_pareto_layers": 1000 if q else 25000,
        "decided:key_order_twin_decisions": 8000 if q else 200000,
        # brackets >= 1: rung levels from the documented formula, decisions at their (top) rungs
        "decided:rung_levels_of_bracket>=1_nonempty": 150 if q else 4000,
        "decided:rung_rank_bracket>=1": 1000 if q else 25000,
        "decided:rung_rank_bracket>=2": 60 if q else 1500,
        "decided:rung_rank_above_lowest_rung_of_bracket>=1": 400 if q else 10000,
        "decided:rung_rank_top_rung_of_bracket>=1": 300 if q else 8000,
        "decided:rung_rank_top_rung_of_bracket>=1:STOP": 80 if q else 2000,
        # NonDominatedPriority(max_num_samples=k) with k < number of trials at the rung
        "decided:nd_priority_vector_pareto_consistent": 2500 if q else 60000,
        "decided:nd_priority_vector_with_max_num_samples<n": 500 if q else 12000,
        "decided:rung_rank_new_trial_cut_off_by_max_num_samples": 250 if q else 6000,
        # sparse reporters (a report skips rung levels) and entries recorded on the completion path
        "trials_sparse_reporter": 800 if q else 20000,
        "decided:rung_rank_after_skipped_rung": 300 if q else 8000,
        "decided:rung_rank_after_skipped_rung:max_mode": 120 if q else 3000,
        "decided:rung_rank_after_skipped_rung:min_mode": 100 if q else 2500,
        "decided:rung_rank_after_skipped_rung:STOP": 100 if q else 2500,
        "decided:first_arrival_after_skipped_rung": 40 if q else 1000,
        "decided:completion_records_new_entry": 50 if q else 1200,
        "decided:completion_records_new_entry:max_mode": 25 if q else 600,
        "decided:completion_matrix_checked": 40 if q else 1000,
        "decided:rung_rank_against_entry_recorded_at_completion": 250 if q else 6000,
        "decided:rung_rank_against_entry_recorded_at_completion:max_mode": 120 if q else 3000,
        "decided:rung_rank_against_entry_recorded_at_completion:min_mode": 60 if q else 1500,
        # failing trials (on_trial_error after they recorded at rungs): their records stay in the rung
        "trials_failed_after_recording_at_a_rung": 200 if q else 5000,
        "decided:rung_rank_with_record_of_failed_trial": 400 if q else 10000,
        "decided:rung_rank_with_record_of_failed_trial:STOP": 150 if q else 4000,
        "decided:rung_rank_with_record_of_failed_trial:bracket>=1": 40 if q else 1000,
        "decided:rung_rank_with_record_of_failed_trial:linear": 50 if q else 1200,
        "decided:rung_rank_with_record_of_failed_trial:fixed": 50 if q else 1200,
        "decided:rung_rank_with_record_of_failed_trial:default": 50 if q else 1200,
        "decided:rung_rank_with_record_of_failed_trial:nd": 40 if q else 1000,
        "decided:rung_rank_where_record_of_failed_trial_is_decisive": 40 if q else 1000,
    }


# =====================================================================================
# engine A: point sets
# =====================================================================================

SET_KINDS = ["grid", "grid", "grid_dup", "grid_dup", "cont", "cont_dup", "mixed", "chain", "antichain", "repeat_col"]


def _gen_set(g):
    r = g.random()
    if r < 0.04:
        n = 1
    elif r < 0.35:
        n = int(g.integers(2, 7))
    else:
        n = int(g.integers(7, 41))
    d = int(g.integers(1, 6))
    kind = SET_KINDS[int(g.integers(0, len(SET_KINDS)))]
    integral = False
    if kind == "grid":
        X = g.integers(0, int(g.integers(1, 5)), size=(n, d)).astype(float)
        integral = True
    elif kind == "grid_dup":
        n0 = max(1, int(g.integers(1, max(2, n // 2 + 1))))
        base = g.integers(0, int(g.integers(2, 6)), size=(n0, d)).astype(float)
        X = base[g.integers(0, n0, size=n)]
        integral = True
    elif kind == "cont":
        X = g.normal(size=(n, d))
    elif kind == "cont_dup":
        n0 = max(1, int(g.integers(1, max(2, n // 2 + 1))))
        base = g.normal(size=(n0, d))
        X = base[g.integers(0, n0, size=n)]
    elif kind == "mixed":
        X = g.normal(size=(n, d)) * 2
        for c in range(d):
            if g.random() < 0.6:
                X[:, c] = np.round(X[:, c])
    elif kind == "chain":
        nl = int(g.integers(1, n + 1))
        lev = g.integers(0, nl, size=n).astype(float)
        X = lev[:, None] + np.zeros((n, d))
        if g.random() < 0.5:
            X = X + g.integers(0, 2, size=(n, d)) * 0.25
    elif kind == "antichain":
        x = g.permutation(n).astype(float)
        if g.random() < 0.4:
            x = np.floor(x / 2)
        cols = []
        for c in range(d):
            cols.append(x if c % 2 == 0 else -x)
        X = np.stack(cols, axis=1)
        if g.random() < 0.3 and d >= 2:
            X[:, -1] = 0.0
        integral = True
    else:  # repeat_col
        x = g.normal(size=n)
        if g.random() < 0.5:
            x = np.round(x * 2)
        X = np.repeat(x[:, None], d, axis=1)
    X = np.array(X, dtype=float)
    if integral and g.random() < 0.35:
        X = X.astype(int)
    elif g.random() < 0.3:
        X = X * float(g.choice([1e-3, 1e3, 1e6])) + float(g.choice([0.0, -5.0, 7.0]))
    if g.random() < 0.15:
        # objectives of large magnitude with small differences (parameter counts, byte sizes, timestamps): exact in
        # float64 / int64, not resolvable in a narrower float type
        off = [10 ** 8, -(10 ** 8), 10 ** 10, 2 ** 40][int(g.integers(0, 4))]
        X = X + (off if X.dtype.kind == "i" else float(off))
    X = X[g.permutation(n)]
    return X, kind


def _gen_probes(g, n, d, sizes):
    probes = [{"dim": None, "max_items": None, "flatten": True}]
    dims = {int(g.integers(0, d))}
    if d > 1 and g.random() < 0.5:
        dims.add(int(g.integers(0, d)))
    for dim in sorted(dims):
        probes.append({"dim": dim, "max_items": None, "flatten": True})
        probes.append({"dim": dim, "max_items": None, "flatten": False})
    cands = {1, n, n + 1, n + 3, max(1, n - 1), int(g.integers(1, n + 1))}
    cum = np.cumsum(sizes)
    for c in cum[: 1 + int(g.integers(0, len(cum)))][-2:]:
        cands.update({int(c), int(c) + 1, max(1, int(c) - 1)})
    cands = sorted(cands)
    picks = [cands[i] for i in g.permutation(len(cands))[:4]]
    dl = [None] + sorted(dims)
    for m in picks:
        probes.append(
            {"dim": dl[int(g.integers(0, len(dl)))], "max_items": int(m), "flatten": bool(g.random() < 0.5)}
        )
    return probes


def _violate(o, clause, mechanism, detail=None):
    """At most two witnesses per mechanism and case: a frequent (possibly known) mechanism must not
    use up the per-case witness slots of Obs and thereby hide a different one."""
    seen = o.__dict__.setdefault("_mech_seen", {})
    seen[mechanism] = seen.get(mechanism, 0) + 1
    if seen[mechanism] <= 2:
        o.violate(clause, mechanism, detail)
    else:
        o.count("violations_not_stored_again")


def _is_int(v):
    return isinstance(v, (int, np.integer)) and not isinstance(v, (bool, np.bool_))


def _check_sort(o, X, layer, sizes, probe, nds):
    n = X.shape[0]
    dim, m, flatten = probe["dim"], probe["max_items"], probe["flatten"]
    wit = {"X": X.tolist(), "probe": probe}
    try:
        out = nds(X, dim=dim, max_items=m, flatten=flatten)
    except Exception as e:  # noqa: BLE001
        _violate(o, "sort", f"raised:nondominated_sort:{type(e).__name__}", dict(wit, error=repr(e)[:300]))
        return
    wit["out"] = out
    # ---- shape of the answer
    if flatten:
        ok = isinstance(out, (list, np.ndarray)) and all(_is_int(i) for i in out)
        groups = None
        flat = [int(i) for i in out] if ok else None
    else:
        ok = isinstance(out, list) and all(
            isinstance(grp, (list, np.ndarray)) and all(_is_int(i) for i in grp) for grp in out
        )
        groups = [[int(i) for i in grp] for grp in out] if ok else None
        flat = [i for grp in groups for i in grp] if ok else None
    if not ok:
        _violate(o, "sort", "nondominated_sort:result_is_not_a_list_of_indices" + ("" if flatten else "_lists"), wit)
        return
    # ---- distinct, in range, how many
    structural = True
    if any(not 0 <= i < n for i in flat):
        _violate(o, "sort_every_index_once", "nondominated_sort:index_out_of_range", wit)
        return
    if len(set(flat)) != len(flat):
        _violate(o, "sort_every_index_once", "nondominated_sort:index_returned_twice", wit)
        structural = False
    expect_n = n if m is None else min(m, n)
    if m is None:
        o.count("decided:sort_all_indices")
        if len(flat) != expect_n:
            _violate(o, 
                "sort_every_index_once",
                "nondominated_sort:" + ("index_missing" if len(flat) < expect_n else "too_many_indices"),
                wit,
            )
            structural = False
    else:
        o.count("decided:sort_max_items")
        if len(flat) != expect_n:
            _violate(o, 
                "sort_max_items",
                "max_items:returned_" + ("fewer" if len(flat) < expect_n else "more") + "_than_min(max_items,N)",
                wit,
            )
            structural = False
    # ---- layers in order, earlier layers complete
    L = [int(layer[i]) for i in flat]
    o.count("decided:sort_layer_order", max(0, len(L) - 1))
    if any(L[k] > L[k + 1] for k in range(len(L) - 1)):
        _violate(o, "sort_layer_order", "nondominated_sort:later_layer_before_earlier_layer", dict(wit, layers=L))
        structural = False
    elif L and structural:
        got = np.bincount(np.array(L), minlength=len(sizes))
        top = max(L)
        inc = [l_ for l_ in range(top) if got[l_] != sizes[l_]]
        if inc:
            _violate(o, 
                "sort_layer_order",
                "max_items:earlier_layer_incomplete" if m is not None else "nondominated_sort:earlier_layer_incomplete",
                dict(wit, layers=L),
            )
            structural = False
    # ---- un-flattened lists are the layers
    if groups is not None:
        o.count("decided:sort_unflattened")
        bad = None
        for k, grp in enumerate(groups):
            if not grp:
                bad = "unflattened:empty_list"
            elif any(int(layer[i]) != k for i in grp):
                bad = "unflattened:list_k_is_not_layer_k"
            elif k < len(groups) - 1 and len(grp) != sizes[k]:
                bad = "unflattened:layer_list_incomplete"
            elif k == len(groups) - 1 and m is None and len(grp) != sizes[k]:
                bad = "unflattened:layer_list_incomplete"
            if bad:
                break
        if bad is None and m is None and len(groups) != len(sizes):
            bad = "unflattened:number_of_lists_is_not_number_of_layers"
        if bad:
            _violate(o, "sort_unflattened", bad, dict(wit, layers=L))
            structural = False
    # ---- dim: first element of every layer has the lowest value in that coordinate
    if dim is not None and structural and flat:
        pos = 0
        for l_ in range(max(L) + 1):
            seg = flat[pos : pos + int(sizes[l_])]
            pos += int(sizes[l_])
            if not seg:
                break
            members = np.flatnonzero(layer == l_)
            best = X[members, dim].min()
            o.count("decided:sort_dim_first_layers")
            if len(members) >= 3:
                o.count("decided:sort_dim_first_layers_size>=3")
            if X[seg[0], dim] != best:
                # is the witness explained by "ranks used as an index" (order inverted)?
                front = sorted(int(i) for i in members)
                expl = "other"
                full = seg
                if len(seg) < len(front):
                    # layer truncated by max_items: fetch the whole layer (dim given => deterministic)
                    try:
                        whole = [int(i) for i in nds(X, dim=dim, max_items=None, flatten=True)]
                        full = [i for i in whole if int(layer[i]) == l_]
                        if full[: len(seg)] != seg:
                            full = seg
                    except Exception:  # noqa: BLE001
                        full = seg
                if len(full) == len(front) and front[0] in full:
                    intended_first = front[full.index(front[0])]
                    if X[intended_first, dim] == best:
                        expl = "layer_order_is_inverse_permutation_of_an_order_starting_at_the_minimum"
                # Outside the statement of C19 (which constrains only the order of *layers*): the
                # docstrings promise the layer's minimiser of coordinate ``dim`` first, the code applies
                # the inverse permutation (DESIGN section 6). Counted as an observation, never an alarm.
                o.count("note:sort_dim_first_not_min:" + expl)
                break


def _run_set(spec, o):
    from syne_tune.optimizer.schedulers.multiobjective.non_dominated_priority import (
        nondominated_sort,
        pareto_efficient,
    )

    g = np.random.default_rng(spec["seed"])
    np.random.seed(spec["seed"] % (2**32))  # compute_epsilon_net(dim=None) draws from the global RNG
    if "X" in spec:
        X, kind = np.array(spec["X"]), "explicit"
        if X.ndim == 1:
            X = X[:, None]
    else:
        X, kind = _gen_set(g)
    n, d = X.shape
    dominated = ref.dominated_mask(X)
    if n <= 6:
        assert (dominated == ref.dominated_mask_slow(X)).all(), "reference self-check"
    layer = ref.layer_numbers(X)
    assert ((layer == 0) == ~dominated).all(), "reference self-check"
    sizes = np.bincount(layer)
    n_unique = len({tuple(r) for r in X.tolist()})
    has_dup = n_unique < n
    ties = any(len(set(X[:, c].tolist())) < n for c in range(d)) if n > 1 else False
    o.count("sets")
    o.count("set_kind:" + kind)
    if has_dup:
        o.count("sets_with_duplicates")
    if ties:
        o.count("sets_with_ties")
    if len(sizes) > 1:
        o.count("sets_multi_layer")
    if X.dtype.kind == "i":
        o.count("sets_int_dtype")

    # ---------------------------------------------------------------- pareto_efficient
    wit = {"X": X.tolist()}
    try:
        eff = pareto_efficient(X.copy())
    except Exception as e:  # noqa: BLE001
        _violate(o, "pareto_filter", f"raised:pareto_efficient:{type(e).__name__}", dict(wit, error=repr(e)[:300]))
        eff = None
    if eff is not None:
        if not (isinstance(eff, np.ndarray) and eff.shape == (n,) and eff.dtype == bool):
            _violate(o, "pareto_filter", "pareto_efficient:result_is_not_a_boolean_vector_of_length_N", dict(wit, got=repr(eff)[:200]))
        else:
            o.count("decided:pareto_efficient_points", n)
            o.count("decided:pareto_efficient_dominated_points", int(dominated.sum()))
            bad = np.flatnonzero(eff == dominated)  # eff must equal ~dominated
            if len(bad):
                i = int(bad[0])
                dom = ref.dominance_matrix(X)
                if eff[i]:
                    js = np.flatnonzero(dom[:, i])
                    strict = any(bool((X[j] < X[i]).all()) for j in js)
                    mech = "pareto_efficient:dominated_point_marked_efficient:" + (
                        "has_dominator_strictly_lower_everywhere" if strict else "every_dominator_ties_in_some_coordinate"
                    )
                else:
                    dup = any(j != i and (X[j] == X[i]).all() for j in range(n))
                    mech = "pareto_efficient:nondominated_point_marked_dominated:" + (
                        "exact_duplicate_present" if dup else "no_duplicate"
                    )
                _violate(o, "pareto_filter", mech, dict(wit, index=i, got=eff.tolist(), expected=(~dominated).tolist()))

    # ---------------------------------------------------------------- nondominated_sort
    probes = spec["probes"] if "probes" in spec else _gen_probes(g, n, d, sizes)
    for p in probes:
        p = {"dim": p.get("dim"), "max_items": p.get("max_items"), "flatten": p.get("flatten", True)}
        _check_sort(o, X.copy(), layer, sizes, p, nondominated_sort)
    o.set_sig(
        ["set", n, d, sizes.tolist(), n - n_unique, [[p.get("dim"), p.get("max_items"), p.get("flatten", True)] for p in probes]],
        nontrivial=n >= 2 and (len(sizes) >= 2 or ties),
    )
    o.sample = {"kind": kind, "N": n, "D": d, "layer_sizes": sizes.tolist(), "duplicates": n - n_unique,
                "dtype": str(X.dtype), "X_head": X[:4].tolist(), "probes": probes[:5]}


# =====================================================================================
# engine B: MOASHA schedules
# =====================================================================================

METRIC_NAMES = ["loss", "cost", "latency", "err", "mem"]
POLICIES = ["uniform", "round_robin", "starve_one", "burst"]


def _moasha_params(spec):
    rng = random.Random(spec["seed"])
    d = rng.randint(1, 5)
    grace = rng.randint(1, 3)
    max_t = rng.choice([4, 6, 8, 9, 10, 12, 16, 20, 27, 30])
    if rng.random() < 0.04:
        max_t = grace
    r = rng.random()
    if r < 0.15:
        mode = None
    elif r < 0.3:
        mode = "min"
    elif r < 0.5:
        mode = "max"
    else:
        mode = [rng.choice(["min", "max"]) for _ in range(d)]
    r = rng.random()
    prio = {"kind": "default"}
    if r < 0.3:
        pass
    elif r < 0.5:
        prio = {"kind": "nd", "dim": rng.choice([None] + list(range(d)))}
    elif r < 0.75:
        prio = {"kind": "fixed", "dim": rng.choice([None] + list(range(d)))}
    else:
        w = None
        if rng.random() < 0.7:
            w = [rng.choice([0.2, 0.4, 0.8, 1.0, 0.0, 2.0, 0.5]) for _ in range(d)]
        prio = {"kind": "linear", "weights": w, "as_array": rng.random() < 0.5}
    prio["named"] = rng.random() < 0.5
    col_kinds = [rng.choice(["grid2", "grid3", "grid5", "cont", "trend", "const"]) for _ in range(d)]
    if rng.random() < 0.3:
        col_kinds = [rng.choice(["grid2", "grid3"])] * d
    elif rng.random() < 0.3:
        col_kinds = ["cont"] * d
    P = {
        "d": d,
        "rf": rng.choice([2, 3, 4, 2.5, 2.0, 3.0]),
        "grace": grace,
        "max_t": max_t,
        "brackets": rng.randint(1, 3),
        "mode": mode,
        "prio": prio,
        "n_workers": rng.randint(1, 8),
        "n_trials": rng.randint(3, 40),
        "policy": rng.choice(POLICIES),
        "p_start": rng.choice([1.0, 1.0, 0.5, 0.15]),
        "col_kinds": col_kinds,
        "t_offset": 0.5 if rng.random() < 0.15 else 0,
        "early": rng.choice([0.0, 0.0, 0.3, 0.6]),
        "time_attr": rng.choice(["epoch", "step", "training_iteration"]),
    }
    # how the training script lays out its report dict, and per-objective scales / offsets (so that a
    # permutation of coordinates changes the vector and, typically, its Pareto layer). Drawn from a
    # separate generator; explicit reproducer specs ("override") keep the plain layout unless they say otherwise.
    rng2 = random.Random(spec["seed"] * 977 + 3)
    r = rng2.random()
    P["key_order"] = "canonical" if r < 0.3 else "reversed_all" if r < 0.4 else "per_trial" if r < 0.7 else "per_report"
    P["col_affine"] = [[1, 0]] * d
    if rng2.random() < 0.6:
        P["col_affine"] = [[rng2.choice([1, 3, 10, 100]), rng2.choice([0, 0, 5, -7, 40])] for _ in range(d)]
    # deep variant: 2..4 brackets and enough levels that bracket s >= 1 has several rungs of its own
    # (bracket s: grace * rf^(k+s) <= max_t), long-lived trials so that the top rungs are reached
    plain = "override" in spec  # explicit reproducer specs keep the plain parameters
    if not plain and P["brackets"] < 4 and rng2.random() < 0.15:
        P["brackets"] = 4
    if not plain and rng2.random() < 0.3:
        P["brackets"] = rng2.randint(2, 4)
        P["rf"] = rng2.choice([2, 3, 3, 2.0, 3.0])
        P["grace"] = rng2.choice([1, 1, 2])
        P["max_t"] = rng2.choice([20, 28, 30, 40, 64, 70, 81, 85])
        P["n_trials"] = rng2.randint(12, 30)
        P["n_workers"] = rng2.randint(3, 8)
        P["early"] = rng2.choice([0.0, 0.0, 0.2])
        P["deep"] = True
    # NonDominatedPriority(max_num_samples=k): only the best k items are ranked, the rest share the worst priority
    if not plain and P["prio"]["kind"] == "nd" and rng2.random() < 0.6:
        P["prio"] = dict(P["prio"], max_num_samples=rng2.choice([1, 1, 2, 2, 3, 4, 5, 7, 10]))
    # sparse reporters: trials that report only every k-th resource level and/or start above the first rung
    # levels; trials ending by themselves whose completion carries a final result at a new level
    P["sparse"] = 0.0 if plain else rng2.choice([0.0, 0.0, 0.0, 0.5, 1.0])
    P["complete_new"] = 0.0 if plain else rng2.choice([0.0, 0.0, 0.5])
    # failing trials: a fraction of the trials fails (Tuner -> scheduler.on_trial_error) at a random point after
    # at least one report; what they recorded at rungs stays part of "all trials recorded at that rung"
    P["fail_frac"] = 0.0 if plain else rng2.choice([0.0, 0.0, 0.1, 0.2, 0.3])
    if not plain and P["sparse"] > 0 and rng2.random() < 0.7:
        P["early"] = rng2.choice([0.3, 0.6, 0.8])
    if "override" in spec:
        P["key_order"], P["col_affine"] = "canonical", [[1, 0]] * d
    P.update(spec.get("override", {}))
    P["metrics"] = METRIC_NAMES[: P["d"]]
    if len(P["col_affine"]) != P["d"]:
        P["col_affine"] = [[1, 0]] * P["d"]
    return P


EXTRA_KEYS = [("st_worker_time", 12.5), ("elapsed_time", 3.0), ("note", "x"), ("accuracy_not_optimized", 0.5), ("st_worker_iter", 4)]


def _result_dict(P, spec, tid, level, t, raw, canonical):
    """The report as a dict, and the order (indices into ``metrics``) in which its metric keys appear.
    The objective vector is defined by metric NAME; the key order of a report is the script's business."""
    names, ta, d = P["metrics"], P["time_attr"], P["d"]
    mode = "canonical" if canonical else P["key_order"]
    if mode == "canonical":
        res = {ta: t}
        res.update(zip(names, raw))
        return res, tuple(range(d))
    if mode == "reversed_all":
        perm = list(range(d))[::-1]
        items = [(names[k], raw[k]) for k in perm] + [(ta, t)]
        return dict(items), tuple(perm)
    krng = random.Random(spec["seed"] * 1009 + tid * 9176 + (level * 31 if mode == "per_report" else 0) + 7)
    perm = list(range(d))
    krng.shuffle(perm)
    items = [(names[k], raw[k]) for k in perm]
    items.insert(krng.randint(0, len(items)), (ta, t))
    for extra in krng.sample(EXTRA_KEYS, krng.randint(0, 2)):
        items.insert(krng.randint(0, len(items)), extra)
    return dict(items), tuple(perm)


def _signs(P):
    mode, d = P["mode"], P["d"]
    if mode is None or mode == "min":
        return [1] * d
    if mode == "max":
        return [-1] * d
    return [1 if m == "min" else -1 for m in mode]


def _curve(P, spec, tid, n_levels):
    """Objective vectors of trial ``tid`` for levels 1..n_levels (python numbers)."""
    table = spec.get("table")
    if table is not None and str(tid) in table:
        rows = table[str(tid)]
        return [list(rows[min(k, len(rows) - 1)]) for k in range(n_levels)]
    rng = random.Random(spec["seed"] * 7919 + tid * 104729 + 1)
    cols = []
    for ck in P["col_kinds"]:
        if ck.startswith("grid"):
            g_ = int(ck[4:])
            cols.append([rng.randrange(g_) for _ in range(n_levels)])
        elif ck == "cont":
            x = rng.gauss(0, 1)
            c = []
            for _ in range(n_levels):
                x += rng.gauss(-0.1, 0.3)
                c.append(x)
            cols.append(c)
        elif ck == "trend":
            b, k = rng.randint(2, 6), rng.randint(1, 4)
            cols.append([max(0, b - lv // k) for lv in range(n_levels)])
        else:
            cols.append([1.5] * n_levels)
    aff = P.get("col_affine") or [[1, 0]] * len(cols)
    return [[c[k] * aff[j][0] + aff[j][1] for j, c in enumerate(cols)] for k in range(n_levels)]


_REC_CLASSES = {}


def _wrap_priority(obj, calls):
    """Per-instance wrap: swap the instance's class for a recording subclass of its own class."""
    base = type(obj)
    sub = _REC_CLASSES.get(base)
    if sub is None:

        def __call__(self, objectives):  # noqa: N807
            m = np.array(objectives, copy=True)
            out = base.__call__(self, objectives)
            self._stv_calls.append((m, np.array(out, copy=True)))
            return out

        sub = type("Rec" + base.__name__, (base,), {"__call__": __call__})
        _REC_CLASSES[base] = sub
    obj.__class__ = sub
    obj._stv_calls = calls


def _make_scheduler(P, mode, calls):
    from syne_tune.config_space import randint
    from syne_tune.optimizer.schedulers.multiobjective.moasha import MOASHA
    from syne_tune.optimizer.schedulers.multiobjective.multiobjective_priority import (
        FixedObjectivePriority,
        LinearScalarizationPriority,
        NonDominatedPriority,
    )

    pr = P["prio"]
    names = list(P["metrics"]) if pr.get("named") else None
    prio = None
    if pr["kind"] == "nd":
        prio = NonDominatedPriority(metrics=names, dim=pr.get("dim"), max_num_samples=pr.get("max_num_samples"))
    elif pr["kind"] == "fixed":
        prio = FixedObjectivePriority(metrics=names, dim=pr.get("dim"))
    elif pr["kind"] == "linear":
        w = pr.get("weights")
        if w is not None and pr.get("as_array"):
            w = np.array(w)
        prio = LinearScalarizationPriority(metrics=names, weights=w)
    kw = dict(
        config_space={"x": randint(0, 100), "c": 3},
        metrics=list(P["metrics"]),
        time_attr=P["time_attr"],
        max_t=P["max_t"],
        grace_period=P["grace"],
        reduction_factor=P["rf"],
        brackets=P["brackets"],
    )
    if mode is not None:
        kw["mode"] = mode
    if prio is not None:
        kw["multiobjective_priority"] = prio
    sched = MOASHA(**kw)
    target = prio if prio is not None else getattr(sched, "_multiobjective_priority", None)
    if target is None:
        return sched, False
    _wrap_priority(target, calls)
    return sched, True


def _recompute_priorities(P, M):
    """Independent priorities for the scalar priority kinds (None for non-dominated sort)."""
    pr = P["prio"]
    n, d = M.shape
    if pr["kind"] == "fixed":
        k = pr.get("dim") or 0
        return np.array([float(M[i][k]) for i in range(n)]), 0.0
    if pr["kind"] == "linear":
        w = pr.get("weights")
        w = [1.0] * d if w is None else [float(x) for x in w]
        vals, scale = [], []
        for i in range(n):
            terms = [float(M[i][k]) * w[k] for k in range(d)]
            vals.append(sum(terms) / d)
            scale.append(max([abs(t) for t in terms] + [1e-300]))
        return np.array(vals), np.array(scale)
    return None, None


class _Violated(Exception):
    pass


def _ref_rung_levels(P, s_):
    """Bracket ``s``: grace * rf^j for j = s, s+1, ... while the level is <= max_t (exact arithmetic)."""
    rf, g, mt = Fraction(P["rf"]), Fraction(P["grace"]), Fraction(P["max_t"])
    out, lev = [], g * rf**s_
    while lev <= mt:
        out.append(float(lev))
        lev *= rf
    return out


def _drive(o, P, spec, sched, calls, script, judge, signs, table_signs, canonical_keys=False):
    """Run one schedule. ``script`` None => generate actions with the case's policy (and return them).
    ``judge`` => run the oracles. ``table_signs`` multiplies the table columns (twin run)."""
    from syne_tune.backend.trial_status import Trial

    rng = random.Random(spec["seed"] * 31 + 5)
    inv_rf = 1 / Fraction(P["rf"])
    max_t, off, ta = P["max_t"], P["t_offset"], P["time_attr"]
    n_levels_to_max = max(1, int(np.ceil(max_t - off)))
    lengths_override = spec.get("lengths") or {}
    actions, decisions = [], []
    running = []  # trial ids in start order
    info = {}  # tid -> dict(trial, level, length, curve, bidx)
    milestones = {}  # bidx -> sorted list of rung levels (reference: documented formula)
    own_levels = {}  # bidx -> the scheduler's own list (read-only probe)
    recorded = {}  # (bidx, milestone) -> list of (tid, signed vector)
    failed = set()  # trials that failed (on_trial_error)
    started = 0
    rr = 0
    burst = [None, 0]
    brackets_used = set()
    script_i = 0
    aborted = False

    def expect(tid, bidx, t):
        """The first rung from the top with level <= t at which the trial is not recorded yet decides and
        records (one rung per call). Second value: the trial has other unrecorded rung levels <= t (it skipped
        a rung) or decides here at a rung below one it is already recorded at."""
        ms = milestones[bidx]
        reached = [m for m in ms if t >= m and all(x[0] != tid for x in recorded.get((bidx, m), []))]
        if not reached:
            return ("non_rung", None), False
        m = max(reached)
        above = any(mm > m and t >= mm for mm in ms)
        return ("first" if not recorded.get((bidx, m)) else "rank", m), (len(reached) > 1 or above)

    def call(api, fn, *a, **k):
        try:
            return fn(*a, **k)
        except Exception as e:  # noqa: BLE001
            if judge:
                _violate(o, "api", f"raised:{api}:{type(e).__name__}", {"error": repr(e)[:300], "params": P})
            raise _Violated()

    try:
        while True:
            # ------------------------------------------------------------ choose the next action
            if script is not None:
                if script_i >= len(script):
                    break
                act = script[script_i]
                script_i += 1
            else:
                free = P["n_workers"] - len(running)
                remaining = P["n_trials"] - started
                if remaining and free > 0 and (not running or rng.random() < P["p_start"]):
                    act = "s"
                elif running:
                    pol = P["policy"]
                    if pol == "uniform":
                        act = rng.choice(running)
                    elif pol == "round_robin":
                        rr += 1
                        act = running[rr % len(running)]
                    elif pol == "starve_one":
                        victim = running[0]
                        others = running[1:]
                        if others and rng.random() > 0.03:
                            act = rng.choice(others)
                        elif remaining and free > 0:
                            act = "s"
                        else:
                            act = victim
                    else:  # burst
                        if burst[0] in running and burst[1] > 0:
                            burst[1] -= 1
                        else:
                            burst[0], burst[1] = rng.choice(running), rng.randint(1, 6)
                        act = burst[0]
                else:
                    break
            actions.append(act)
            # ------------------------------------------------------------ start a trial
            if act == "s":
                tid = started
                sug = call("suggest", sched.suggest, tid)
                if judge and (sug is None or not getattr(sug, "spawn_new_trial_id", False) or sug.config is None):
                    _violate(o, "api", "suggest:no_start_suggestion", {"got": repr(sug)[:200]})
                    raise _Violated()
                trial = Trial(trial_id=tid, config=sug.config, creation_time=_T0)
                call("on_trial_add", sched.on_trial_add, trial=trial)
                try:
                    b = sched._trial_info[tid]
                    bidx = next(i for i, bb in enumerate(sched._brackets) if bb is b)
                    if bidx not in milestones:
                        own_levels[bidx] = sorted(float(m) for m, _ in b._rungs)
                        milestones[bidx] = _ref_rung_levels(P, bidx)
                        if judge:
                            # levels >= max_t are never consulted by on_trial_result (the max_t stop comes first)
                            mine = [m for m in milestones[bidx] if m < max_t]
                            theirs = [m for m in own_levels[bidx] if m < max_t]
                            o.count("decided:rung_levels_of_bracket")
                            if bidx >= 1 and mine:
                                o.count("decided:rung_levels_of_bracket>=1_nonempty")
                            if mine != theirs:
                                lost = [m for m in mine if m not in theirs]
                                _violate(o, "rung_levels",
                                         "rung_levels:bracket_" + ("0" if bidx == 0 else "s>=1") + "_" +
                                         ("lacks_level_grace*rf^(k+s)_below_max_t" if lost else "has_level_that_is_not_grace*rf^(k+s)"),
                                         {"bracket": bidx, "grace": P["grace"], "rf": P["rf"], "max_t": max_t,
                                          "documented": mine, "scheduler": theirs})
                except Exception:  # noqa: BLE001 - read-only probe of private state not available
                    if judge:
                        o.inconclusive("bracket_of_trial_not_readable")
                    raise _Violated()
                brackets_used.add(bidx)
                lrng = random.Random(spec["seed"] * 13 + tid)
                length = n_levels_to_max
                if lrng.random() < P["early"]:
                    length = lrng.randint(1, n_levels_to_max)
                if str(tid) in lengths_override:
                    length = min(n_levels_to_max, int(lengths_override[str(tid)]))
                stride, first = 1, 1
                if lrng.random() < P.get("sparse", 0.0):
                    stride = lrng.choice([1, 2, 2, 3, 3, 5])
                    first = lrng.choice([1, stride, lrng.randint(1, max(1, min(n_levels_to_max, 3 * P["grace"] * 3)))])
                so = (spec.get("strides") or {}).get(str(tid))
                if so:
                    stride, first = int(so[0]), int(so[1])
                levels, lv = [], first
                while True:
                    levels.append(lv)
                    if lv >= n_levels_to_max:  # this report carries time >= max_t
                        break
                    if lv + stride > length and length < n_levels_to_max:  # the script ends by itself
                        break
                    lv += stride
                # completion with a final result at a new level (not passed to on_trial_result before)
                fail_at = None  # the trial fails instead of making its report number fail_at (0-based), >= 1
                frng = random.Random(spec["seed"] * 17 + tid * 7 + 3)
                if frng.random() < P.get("fail_frac", 0.0) and len(levels) >= 2:
                    fail_at = frng.randint(1, min(len(levels) - 1, 1 + frng.choice([0, 1, 2, 4, 8])))
                if str(tid) in (spec.get("fail_at") or {}):
                    fail_at = int(spec["fail_at"][str(tid)])
                final_extra = None
                if lrng.random() < P.get("complete_new", 0.0) and levels[-1] + stride + off < max_t:
                    final_extra = levels[-1] + stride
                if str(tid) in (spec.get("final_extra") or {}):
                    final_extra = int(spec["final_extra"][str(tid)])
                curve = _curve(P, spec, tid, max(levels[-1], final_extra or 0))
                info[tid] = {"trial": trial, "idx": 0, "levels": levels, "curve": curve, "bidx": bidx,
                             "final_extra": final_extra, "sparse": stride > 1 or first > 1, "fail_at": fail_at}
                if judge and (stride > 1 or first > 1):
                    o.count("trials_sparse_reporter")
                running.append(tid)
                started += 1
                if judge:
                    o.ev("start", tid, "bracket", bidx)
                    o.count("trials_started")
                continue
            # ------------------------------------------------------------ a report
            tid = act
            ti = info[tid]
            if ti["fail_at"] is not None and ti["idx"] == ti["fail_at"]:
                # the trial fails: the Tuner signals on_trial_error and the trial is gone; nothing is decided,
                # and what the trial recorded at rungs before stays recorded (reference keeps it)
                call("on_trial_error", sched.on_trial_error, ti["trial"])
                running.remove(tid)
                failed.add(tid)
                decisions.append((tid, "failed", None))
                if judge:
                    o.ev("failed", tid, "after_level", ti["levels"][ti["idx"] - 1])
                    o.count("trials_failed")
                    if any(x[0] == tid for ent in recorded.values() for x in ent):
                        o.count("trials_failed_after_recording_at_a_rung")
                continue
            level = ti["levels"][ti["idx"]]
            ti["idx"] += 1
            t = level + off
            raw = [v * s for v, s in zip(ti["curve"][level - 1], table_signs)]
            result, korder = _result_dict(P, spec, tid, level, t, raw, canonical_keys)
            svec = [v * s for v, s in zip(raw, signs)]  # by metric name, in the order of ``metrics``
            if judge and korder != tuple(range(P["d"])):
                o.count("reports_with_noncanonical_key_order")
            bidx = ti["bidx"]
            # reference expectation
            skipped = False
            if t >= max_t:
                exp = ("max_t", None)
            else:
                exp, skipped = expect(tid, bidx, t)
            n_before = len(calls)
            dec = call("on_trial_result", sched.on_trial_result, ti["trial"], result)
            new_calls = calls[n_before:]
            decisions.append((tid, level, dec))
            if judge:
                o.ev("report", tid, level, raw, "->", dec, exp[0], exp[1])
                ctx = {"bracket": bidx, "skipped": skipped, "failed": failed}
                if exp[1] is not None:
                    below = [m for m in milestones[bidx] if m < max_t]
                    ctx["top_rung"] = bool(below) and exp[1] == below[-1]
                    ctx["level_known_to_scheduler"] = exp[1] in own_levels.get(bidx, [])
                _judge_report(o, P, exp, dec, t, svec, raw, signs, recorded.get((bidx, exp[1]), []), new_calls, inv_rf, korder, ctx)
            if exp[1] is not None:
                recorded.setdefault((bidx, exp[1]), []).append((tid, svec, korder, "result"))
            # protocol
            if dec == STOP:
                call("on_trial_remove", sched.on_trial_remove, ti["trial"])
                running.remove(tid)
            elif dec == CONTINUE:
                if ti["idx"] >= len(ti["levels"]):
                    # the script ended by itself: on_trial_complete with the last result (tuner contract), or - for
                    # some trials - with a final result at a new level. MOASHA passes it to the bracket once more.
                    c_t, c_raw, c_svec, c_korder, c_result = t, raw, svec, korder, result
                    if ti["final_extra"] is not None:
                        fl = ti["final_extra"]
                        c_t = fl + off
                        c_raw = [v * s for v, s in zip(ti["curve"][fl - 1], table_signs)]
                        c_result, c_korder = _result_dict(P, spec, tid, fl, c_t, c_raw, canonical_keys)
                        c_svec = [v * s for v, s in zip(c_raw, signs)]
                    c_exp, c_skipped = expect(tid, bidx, c_t)
                    n_before = len(calls)
                    call("on_trial_complete", sched.on_trial_complete, ti["trial"], c_result)
                    c_calls = calls[n_before:]
                    running.remove(tid)
                    if judge:
                        o.count("trials_completed")
                        o.ev("complete", tid, c_t, c_raw, c_exp[0], c_exp[1])
                        if ti["final_extra"] is not None:
                            o.count("completions_with_new_final_result")
                        if c_exp[1] is not None:
                            o.count("decided:completion_records_new_entry")
                            if any(x < 0 for x in signs):
                                o.count("decided:completion_records_new_entry:max_mode")
                            cctx = {"bracket": bidx, "skipped": c_skipped, "completion": True, "failed": failed,
                                    "level_known_to_scheduler": c_exp[1] in own_levels.get(bidx, [])}
                            _judge_report(o, P, c_exp, None, c_t, c_svec, c_raw, signs,
                                          recorded.get((bidx, c_exp[1]), []), c_calls, inv_rf, c_korder, cctx)
                        elif c_calls:
                            _violate(o, "rung_entries", "completion:priority_evaluated_although_nothing_to_record", {"time": c_t})
                    if c_exp[1] is not None:
                        recorded.setdefault((bidx, c_exp[1]), []).append((tid, c_svec, c_korder, "complete"))
            else:
                if judge:
                    _violate(o, "decision", "decision:neither_stop_nor_continue", {"decision": repr(dec)})
                raise _Violated()
    except _Violated:
        aborted = True
    if judge and len(brackets_used) >= 2:
        o.count("brackets>=2_used")
    return actions, decisions, aborted


def _judge_report(o, P, exp, dec, t, svec, raw, signs, entries, new_calls, inv_rf, korder=None, ctx=None):
    kind = exp[0]
    ctx = ctx or {}
    base = {"time": t, "max_t": P["max_t"], "rf": P["rf"], "decision": dec, "bracket": ctx.get("bracket"),
            "grace": P["grace"], "brackets": P["brackets"]}
    if kind == "max_t":
        o.count("decided:max_t_stop")
        if dec != STOP:
            _violate(o, 
                "stop_at_max_resource",
                "max_t:trial_not_stopped:" + ("time_above_max_t" if t > P["max_t"] else "time_equals_max_t"),
                base,
            )
        return
    if kind == "non_rung":
        o.count("decided:non_rung_continue")
        if new_calls:
            o.count("priority_call_without_rung")
        if dec != CONTINUE:
            _violate(o, "stop_only_at_rung", "non_rung:trial_stopped_between_rungs", base)
        return
    completion = bool(ctx.get("completion"))
    if completion and kind != "rank":
        return  # nothing is decided on the completion path; the entry is checked when it is ranked against
    if kind == "first":
        o.count("decided:first_arrival")
        if ctx.get("skipped"):
            o.count("decided:first_arrival_after_skipped_rung")
        if new_calls:
            _violate(o, "first_arrival", "first_arrival:priority_evaluated_at_other_rung_for_the_same_report", base)
        if dec != CONTINUE:
            _violate(o, "first_arrival", "first_arrival:not_continued", dict(base, rung=exp[1]))
        return
    # ------------------------------------------------------------------ rank rule at a rung
    n = len(entries) + 1
    d = P["d"]
    Mref = np.array([e[1] for e in entries] + [svec], dtype=float).reshape(n, d)
    wit = dict(base, rung=exp[1], n=n, matrix_expected=Mref.tolist(), prio=P["prio"], mode=P["mode"])
    # key order of the metric names in each report that makes up this rung (new trial last)
    ident = tuple(range(d))
    korders = [(e[2] if len(e) > 2 else ident) for e in entries] + [korder if korder is not None else ident]
    Mperm = np.array([[row[k] for k in ko] for row, ko in zip(Mref.tolist(), korders)], dtype=float).reshape(n, d)
    noncanon = any(ko != ident for ko in korders)
    mixed = len(set(korders)) > 1
    sensitive = bool((Mperm != Mref).any())  # reading the vectors in report order would change the matrix
    if noncanon:
        wit["metric_key_order_of_each_report"] = [list(ko) for ko in korders]
    sfx = ":on_trial_complete" if completion else ""
    via_complete = [len(e) > 3 and e[3] == "complete" for e in entries]
    of_failed = [e[0] in ctx.get("failed", ()) for e in entries]
    if any(of_failed):
        wit["rows_recorded_by_trials_that_failed_later"] = [i for i, f in enumerate(of_failed) if f]
    if not new_calls:
        _violate(o, "rung_rank_rule", "rung_decision_without_priority_evaluation" + sfx + (
            "" if ctx.get("level_known_to_scheduler", True) else ":level_grace*rf^(k+s)_missing_from_bracket") + (
            ":only_failed_trials_recorded_at_rung" if all(of_failed) else ""), wit)
        p_used = None
    else:
        # one report is ranked at one rung only: the first rung from the top it newly reaches
        M, p_used = new_calls[0]
        if len(new_calls) > 1:
            o.count("several_priority_calls_in_one_report")
            _violate(o, "one_rung_per_report", "rung_decision:priority_evaluated_at_several_rungs_for_one_report" + sfx,
                     dict(wit, n_priority_calls=len(new_calls), matrices=[c[0].tolist() for c in new_calls[:4]]))
        wit["matrix_given"] = M.tolist()
        wit["priorities"] = p_used.tolist()
        # --- the matrix: exactly the recorded trials + the new one (last), signs applied
        has_max = any(s < 0 for s in signs)
        o.count("decided:matrix_rows", n)
        if has_max:
            o.count("decided:matrix_rows_with_max_mode", n)
        M2 = np.array(M, dtype=float)
        if M2.shape != (n, d):
            mech = "objective_matrix:" + ("row_count_differs_from_trials_recorded_at_rung" if M2.ndim == 2 and M2.shape[1] == d else "shape")
            if any(of_failed) and M2.ndim == 2 and M2.shape[1] == d:
                alive = [tuple(Mref[i].tolist()) for i in range(n - 1) if not of_failed[i]] + [tuple(Mref[-1].tolist())]
                if sorted(map(tuple, M2.tolist())) == sorted(alive):
                    mech = "objective_matrix:records_of_failed_trials_missing_from_rung"
            _violate(o, "rung_entries", mech + sfx, wit)
        else:
            if noncanon:
                o.count("decided:matrix_rows_noncanonical_key_order", int(sum(ko != ident for ko in korders)))
            if sensitive:
                o.count("decided:matrix_key_order_sensitive")
            if not (M2[-1] == Mref[-1]).all():
                unsigned = np.array(raw, dtype=float)
                if korders[-1] != ident and (M2[-1] == Mperm[-1]).all():
                    mech = "objective_matrix:coordinates_follow_report_key_order_not_metrics_argument" + sfx
                elif has_max and (M2[-1] == unsigned).all():
                    mech = "objective_matrix:mode_sign_not_applied" + sfx
                elif any((M2[i] == Mref[-1]).all() for i in range(n - 1)):
                    mech = "objective_matrix:new_trial_is_not_last_row" + sfx
                else:
                    mech = "objective_matrix:new_trial_row_differs" + sfx
                _violate(o, "mode_signs_and_rung_entries", mech, wit)
            elif sorted(map(tuple, M2[:-1].tolist())) != sorted(map(tuple, Mref[:-1].tolist())):
                # which history entries are wrong? (entries recorded by on_trial_complete get their own key)
                given = sorted(map(tuple, M2[:-1].tolist()))
                wrong_c = [i for i in range(n - 1) if via_complete[i] and tuple(Mref[i].tolist()) not in given]
                wrong_r = [i for i in range(n - 1) if not via_complete[i] and tuple(Mref[i].tolist()) not in given]
                if wrong_c and not wrong_r:
                    unsigned_c = all(tuple((Mref[i] * np.array(signs)).tolist()) in given for i in wrong_c)
                    _violate(o, "rung_entries", "objective_matrix:entry_recorded_at_completion_differs_from_final_result" + (
                        ":mode_sign_not_applied" if unsigned_c and has_max else ""), dict(wit, rows=wrong_c))
                elif noncanon and sorted(map(tuple, M2[:-1].tolist())) == sorted(map(tuple, Mperm[:-1].tolist())):
                    _violate(o, "rung_entries", "objective_matrix:recorded_rows_follow_report_key_order_not_metrics_argument", wit)
                else:
                    _violate(o, "rung_entries", "objective_matrix:recorded_rows_differ_from_history" + sfx, wit)
    if completion:
        o.count("decided:completion_matrix_checked")
        return
    # --- independent priorities for the scalar kinds
    p_ref, scale = _recompute_priorities(P, Mref)
    if p_ref is not None:
        o.count("decided:priority_recomputed:" + P["prio"]["kind"])
        if p_used is not None:
            pu = np.array(p_used, dtype=float)
            if pu.shape != (n,):
                _violate(o, "priority_values", "priority_vector:shape_is_not_(n,)", wit)
                p_used = None
            else:
                band = 16 * np.finfo(float).eps * scale
                if (np.abs(pu - p_ref) > band).any():
                    _violate(o, "priority_values", "priority_vector:differs_from_documented_formula:" + P["prio"]["kind"],
                              dict(wit, recomputed=p_ref.tolist()))
        else:
            p_used = p_ref
    if p_used is None:
        return
    p = np.array(p_used)
    if p.shape != (n,):
        _violate(o, "priority_values", "priority_vector:shape_is_not_(n,)", wit)
        return
    # --- the rule itself, from the priorities the object returned
    cnt = int((p < p[-1]).sum())
    frac = Fraction(cnt, n)
    expected = CONTINUE if frac <= inv_rf else STOP
    o.count("decided:rung_rank")
    if n >= 3:
        o.count("decided:rung_rank_n>=3")
    boundary = frac == inv_rf
    if boundary:
        o.count("decided:rung_rank_at_boundary")
    ties = bool((p[:-1] == p[-1]).any())
    if ties:
        o.count("decided:rung_rank_with_tied_priority")
    o.count("rung_outcome:" + str(dec))
    o.count("rung_rank:" + P["prio"]["kind"])
    mtag = ":max_mode" if any(x < 0 for x in signs) else ":min_mode"
    if ctx.get("skipped"):
        o.count("decided:rung_rank_after_skipped_rung")
        o.count("decided:rung_rank_after_skipped_rung" + mtag)
        o.count("decided:rung_rank_after_skipped_rung:" + expected)
    if any(of_failed):
        o.count("decided:rung_rank_with_record_of_failed_trial")
        o.count("decided:rung_rank_with_record_of_failed_trial:" + P["prio"]["kind"])
        o.count("decided:rung_rank_with_record_of_failed_trial:" + expected)
        if ctx.get("bracket", 0) >= 1:
            o.count("decided:rung_rank_with_record_of_failed_trial:bracket>=1")
        # is the failed trial's record decisive? (rank rule without those rows gives the other verdict)
        keep = [i for i in range(n - 1) if not of_failed[i]] + [n - 1]
        cnt2 = int((p[keep] < p[-1]).sum())
        if (Fraction(cnt2, len(keep)) <= inv_rf) != (frac <= inv_rf):
            o.count("decided:rung_rank_where_record_of_failed_trial_is_decisive")
    if any(via_complete):
        o.count("decided:rung_rank_against_entry_recorded_at_completion")
        o.count("decided:rung_rank_against_entry_recorded_at_completion" + mtag)
    if ctx.get("bracket", 0) >= 1:
        o.count("decided:rung_rank_bracket>=1")
        if ctx.get("top_rung"):
            o.count("decided:rung_rank_top_rung_of_bracket>=1")
            o.count("decided:rung_rank_top_rung_of_bracket>=1:" + expected)
        if exp[1] > P["grace"] * P["rf"] ** ctx["bracket"]:
            o.count("decided:rung_rank_above_lowest_rung_of_bracket>=1")
    if ctx.get("bracket", 0) >= 2:
        o.count("decided:rung_rank_bracket>=2")
    if noncanon:
        o.count("decided:rung_rank_noncanonical_key_order")
    if mixed:
        o.count("decided:rung_rank_mixed_key_orders_at_rung")
    if sensitive:
        o.count("decided:rung_rank_key_order_sensitive")
        lay_p = ref.layer_numbers(Mperm)
        if (lay_p != ref.layer_numbers(Mref)).any():
            o.count("decided:rung_rank_key_order_changes_pareto_layers")
    if dec != expected:
        mech = "rank_rule:" + (
            "stopped_although_rank_within_best_fraction" if expected == CONTINUE else "continued_although_rank_outside_best_fraction"
        )
        if boundary:
            mech += ":rank_exactly_at_1/rf"
        _violate(o, "rung_rank_rule", mech, dict(wit, below=cnt, expected=expected, ties=ties))
    # --- non-dominated sort priorities: the verdict every layer-consistent ranking agrees on
    if P["prio"]["kind"] in ("default", "nd"):
        lay = ref.layer_numbers(Mref)
        lo = int((lay < lay[-1]).sum())
        hi = lo + int((lay == lay[-1]).sum()) - 1
        # max_num_samples = k: only the best k items are ranked, all others share the worst priority, so the
        # rank (number of strictly better items) of an item at sorted position r is min(r, k)
        kmax = P["prio"].get("max_num_samples")
        k_eff = n if kmax is None else min(int(kmax), n)
        truncated = k_eff < n
        lo_raw = lo
        lo, hi = min(lo, k_eff), min(hi, k_eff)
        v_lo = Fraction(lo, n) <= inv_rf
        v_hi = Fraction(hi, n) <= inv_rf
        is_perm = p.dtype.kind in "iu" and sorted(p.tolist()) == list(range(n))
        # Pareto consistency of the per-trial priorities: an item of an earlier layer is never worse than one of
        # a later layer, and the two may only tie when both are cut off (>= k items strictly better than them)
        below = [int((p < p[i]).sum()) for i in range(n)]
        worse = [(i, j) for i in range(n) for j in range(n) if lay[i] < lay[j] and p[i] > p[j]]
        tied = [(i, j) for i in range(n) for j in range(n) if lay[i] < lay[j] and p[i] == p[j] and below[i] < k_eff]
        per_item_ok = not worse and not tied
        o.count("decided:nd_priority_vector_pareto_consistent")
        if truncated:
            o.count("decided:nd_priority_vector_with_max_num_samples<n")
            o.count("decided:rung_rank_with_max_num_samples<n")
            if lo_raw >= k_eff:
                o.count("decided:rung_rank_new_trial_cut_off_by_max_num_samples")
        if not per_item_ok:
            o.count("obs:nd_priority_vector_not_layer_monotone_per_trial")
            as_order = is_perm and all(lay[p[k]] <= lay[p[k + 1]] for k in range(n - 1))
            if as_order:
                mech = "nondominated_priority_is_sort_order_not_per_trial_priority"
            elif worse:
                mech = "nondominated_priority:item_of_later_layer_has_better_priority" + (
                    ":max_num_samples<n" if truncated else "")
            else:
                mech = "nondominated_priority:items_of_different_layers_tie_with_fewer_than_k_items_better" + (
                    ":max_num_samples<n" if truncated else "")
            i, j = (worse or tied)[0]
            _violate(o, "priority_pareto_consistent", mech,
                     dict(wit, layer_of_each_row=lay.tolist(), pair=[i, j], max_num_samples=kmax))
        if v_lo == v_hi:
            forced = CONTINUE if v_lo else STOP
            o.count("decided:pareto_forced_verdict")
            if dec != forced:
                as_order_ok = is_perm and all(lay[p[k]] <= lay[p[k + 1]] for k in range(n - 1))
                if as_order_ok and not per_item_ok:
                    mech = "nondominated_priority_is_sort_order_not_per_trial_priority:moasha_decision_contradicts_pareto_layers"
                else:
                    mech = "moasha_decision_contradicts_pareto_layers:priority_vector_" + (
                        "layer_monotone" if per_item_ok else "unexplained"
                    )
                _violate(o, 
                    "moasha_follows_pareto_ranking",
                    mech,
                    dict(wit, layer_of_each_row=lay.tolist(), new_trial_rank_between=[lo, hi], max_num_samples=kmax,
                         verdict_of_every_layer_consistent_ranking=forced),
                )


def _run_moasha(spec, o):
    P = _moasha_params(spec)
    signs = _signs(P)
    o.count("schedules")
    o.count("policy:" + P["policy"])
    o.count("prio:" + P["prio"]["kind"])
    o.count("mode:" + ("list" if isinstance(P["mode"], list) else str(P["mode"])))
    sink = io.StringIO()
    with contextlib.redirect_stdout(sink):
        np.random.seed(spec["seed"] % (2**32))
        calls = []
        sched, wrapped = _make_scheduler(P, P["mode"], calls)
        if not wrapped:
            o.inconclusive("priority_object_not_found")
            return
        actions, decisions, aborted = _drive(o, P, spec, sched, calls, spec.get("order"), True, signs, [1] * P["d"])
        n_rank = o.counters.get("decided:rung_rank", 0)
        # twin: all modes 'min', columns with mode 'max' negated; same seed, same actions
        if any(s < 0 for s in signs) and not aborted:
            np.random.seed(spec["seed"] % (2**32))
            calls2 = []
            sched2, _ = _make_scheduler(P, "min", calls2)
            _, dec2, _ = _drive(o, P, spec, sched2, calls2, actions, False, [1] * P["d"], signs)
            o.count("decided:mode_twin_decisions", len(decisions))
            o.count("mode_twin_schedules")
            if dec2 != decisions:
                k = next((i for i, (a, b) in enumerate(zip(decisions, dec2)) if a != b), min(len(decisions), len(dec2)))
                _violate(o, 
                    "mode_signs",
                    "mode_twin:decisions_differ_from_all_min_scheduler_on_negated_columns",
                    {"first_difference_at": k, "with_modes": decisions[max(0, k - 2): k + 1],
                     "all_min_on_negated": dec2[max(0, k - 2): k + 1], "mode": P["mode"], "prio": P["prio"]},
                )
        # twin: the same reports with every result dict in canonical key order must be decided alike
        if P["key_order"] != "canonical" and P["d"] >= 2 and not aborted:
            np.random.seed(spec["seed"] % (2**32))
            calls3 = []
            sched3, _ = _make_scheduler(P, P["mode"], calls3)
            _, dec3, _ = _drive(o, P, spec, sched3, calls3, actions, False, signs, [1] * P["d"], canonical_keys=True)
            o.count("decided:key_order_twin_decisions", len(decisions))
            o.count("key_order_twin_schedules")
            if dec3 != decisions:
                k = next((i for i, (a, b) in enumerate(zip(decisions, dec3)) if a != b), min(len(decisions), len(dec3)))
                _violate(o,
                    "objective_vector_by_metric_name",
                    "key_order_twin:decisions_differ_from_same_reports_in_canonical_key_order",
                    {"first_difference_at": k, "as_reported": decisions[max(0, k - 2): k + 1],
                     "canonical_key_order": dec3[max(0, k - 2): k + 1], "key_order": P["key_order"], "prio": P["prio"]},
                )
    o.set_sig(["moasha", decisions], nontrivial=n_rank >= 1)
    o.sample = {
        "params": {k: P[k] for k in ("d", "rf", "grace", "max_t", "brackets", "mode", "prio", "n_workers", "n_trials",
                                     "policy", "p_start", "col_kinds", "t_offset", "early", "key_order", "col_affine")},
        "deep_brackets": bool(P.get("deep")),
        "first_events": [list(x) for x in decisions[:12]],
        "n_reports": len(decisions),
        "rung_rank_decisions": n_rank,
    }


def run_case(spec):
    o = Obs()
    if spec.get("kind") == "moasha":
        _run_moasha(spec, o)
    else:
        _run_set(spec, o)
    return o.result()
