"""C20 — a checkpoint exists whenever a trial is resumed or warm-started from it.

Real Tuner runs on the scripted-process LocalBackend (stv/simrun.py): workers write a real checkpoint
file with every report, ``copy_checkpoint`` / ``delete_checkpoint`` operate on real directories. The
monitor replays the recorded history (checkpoint writes, delete / copy / resume calls, decisions,
polled statuses) and checks:
  * at every ``resume_trial(t)`` and ``copy_checkpoint(src -> ...)`` the checkpoint of t / src written
    earlier has not been deleted — unless speculative early removal was explicitly requested;
  * every ``delete_checkpoint(t)`` before tuning ends happens in a state where t was stopped by the
    scheduler, completed or failed, or (synchronous Hyperband, which reports trials that can never be
    resumed) t is paused and is in fact never resumed later; never for a running trial; with deletion
    enabled but no early-removal request a paused trial is not deleted before the end;
  * with deletion disabled nothing is deleted.
"""
import random

from stv import envshim  # noqa: F401
from stv import gen, simrun
from stv.obs import Obs

ID = "C20"
LEVEL = "exploration"
RULE = (
    "case = one real Tuner.run on the scripted-process LocalBackend with real checkpoint directories: scheduler (promotion "
    "Hyperband, PASHA, synchronous Hyperband, DEHB, PBT) x delete_checkpoints on/off x early_checkpoint_removal_kwargs "
    "(none | scored callback | baseline random / by_level) x workers 1-6 x poll plan (0-5 reports per trial per poll, so "
    "that a STOP of trial A and a clone-from-A / resume decision land in one batch). Distinct = digest of the sequence of "
    "(delete / copy / resume, trial state); non-trivial = at least one resume or warm start and, with deletion on, one delete."
)
ASSUMPTIONS = [
    "a checkpoint exists for a trial once its worker has written one (with every report that is not 'late' output) or it "
    "was copied from another trial; it is gone after delete_checkpoint",
    "speculative early removal (early_checkpoint_removal_kwargs) may delete checkpoints of paused trials by design; then only "
    "'never delete the checkpoint of a running trial' and the stop/complete clauses are claimed",
    "DEHB is run without failures and with full brackets (C05-K2/K3)",
]
CASE_TIMEOUT = 60

KINDS = ["hb_promotion", "hb_pasha", "sync_hb", "dehb", "pbt", "pbt", "hb_promotion", "hb_rush_promotion", "hb_cost_promotion"]


def preload():
    import syne_tune  # noqa: F401
    import syne_tune.optimizer.schedulers.synchronous  # noqa: F401
    import syne_tune.callbacks.hyperband_remove_checkpoints_callback  # noqa: F401
    import pandas  # noqa: F401


def cases(tier, seed):
    n = 900 if tier == "quick" else 20000
    out = [{"seed": seed * 49999 + i * 3 + 1, "kind": KINDS[i % len(KINDS)]} for i in range(n)]
    # synchronous schedulers with several stragglers among the first trials: rungs of different brackets complete out of step
    for i in range(240 if tier == "quick" else 5000):
        out.append({"seed": seed * 49999 + i * 3 + 2, "kind": ("dehb", "dehb", "sync_hb")[i % 3], "arm": "stragglers"})
    return out


def floors(tier):
    k = 1 if tier == "quick" else 20
    return {"runs": 400 * k, "decided:resumes": 300 * k, "decided:warm_starts": 150 * k, "decided:deletes_before_end": 500 * k,
            "early_removals": 100 * k, "runs:delete_checkpoints": 200 * k, "runs:no_delete": 80 * k,
            "decided:sync_paused_deletes": 50 * k, "runs:early_removal_requested": 60 * k,
            "decided:pbt_clone_source_choices": 100 * k, "runs:pause_capable_with_several_reports_per_poll": 30 * k, "runs:dehb_without_pause_resume": 15 * k, "runs:synchronous_with_stragglers": 250 * k, "runs:synchronous_with_jobs_crashing_after_a_report": 40 * k, "runs:pbt_with_jobs_stopped_from_outside": 40 * k, "runs:pbt_with_jobs_ending_by_themselves": 40 * k,
            "decided:warm_starts_from_completed_trial": 5 * k, "decided:warm_starts_from_failed_trial": 5 * k, "runs:nan_reporting_trials": 25 * k, "decided:resumes_of_nan_trials": 10 * k}


def expand(spec):
    rng = random.Random(spec["seed"])
    kind = spec["kind"]
    max_t = rng.choice([4, 6, 8, 9, 12])
    use_mra = rng.random() < 0.6
    p = {"kind": kind, "mode": rng.choice(["min", "max"]), "n_workers": rng.randint(1, 6), "max_t": max_t,
         "use_mra": use_mra, "checkpointing": True, "delete_checkpoints": rng.random() < 0.75,
         "plan": {"burst": rng.choice([1, 2, 3, 5]), "late_max": rng.randint(0, 2), "exit_lag_max": rng.randint(0, 2)},
         "stop": rng.choice([{"max_num_evaluations": rng.randint(30, 200)}, {"max_num_trials_started": rng.randint(6, 30)}]),
         "sjwd": True, "async": rng.random() < 0.9, "wait": rng.random() < 0.3,
         "space": gen.small_space(rng, ensure_infinite=True, ordinal_kinds=("equal",)), "curves": rng.choice(["continuous", "crossing"])}
    if simrun.pause_capable(kind) and not use_mra:
        if rng.random() < 0.7:
            p["plan"]["burst"] = 1
        else:
            # a script that writes checkpoints but always restarts at level 1 (so it cannot skip a rung level) may run ahead
            # of the poll: several reports per poll, the PAUSE decision in the middle of a batch
            p["checkpointing"] = False
            p["plan"]["burst"] = rng.choice([2, 3, 5])
    if kind == "pbt" and rng.random() < 0.6:
        # members of the population whose job ends by itself (script shorter than max_t) or fails after some reports:
        # the scheduler has not stopped them, so they stay candidates for cloning
        for _ in range(rng.randint(1, 4)):
            key = f"{rng.randint(0, 8)}:0"
            if rng.random() < 0.5:
                p["plan"].setdefault("short", {})[key] = rng.randint(1, max(1, max_t - 1))
            else:
                p["plan"].setdefault("fail", {})[key] = rng.randint(1, max(1, max_t - 1))
    if kind == "pbt" and rng.random() < 0.4:
        # jobs interrupted from outside (a user, a time limit of the machine): the backend reports them as stopped although
        # nobody called stop_trial; the scheduler only learns of an error and may still clone from their checkpoints
        for _ in range(rng.randint(1, 3)):
            p["plan"].setdefault("ext_stop", {})[f"{rng.randint(0, 8)}:0"] = rng.randint(1, max(1, max_t - 1))
    if kind in ("dehb", "sync_hb") and rng.random() < 0.4:
        # jobs that crash right after (or shortly after) reporting a rung level: the result and the failed status can arrive in
        # one poll, the scheduler has a valid rung entry for the trial and may promote it
        for _ in range(rng.randint(1, 4)):
            p["plan"].setdefault("fail", {})[f"{rng.randint(0, 11)}:0"] = rng.choice([1, 1, 2, 3])
    if kind in ("dehb", "sync_hb") and rng.random() < 0.6:
        # stragglers: some jobs make progress in few polls only, so that rungs of different brackets complete out of step
        p["plan"]["slow"] = {str(rng.randint(0, 14)): rng.choice([0.05, 0.1, 0.25]) for _ in range(rng.randint(1, 4))}
        p["n_workers"] = max(2, p["n_workers"])
    if spec.get("arm") == "stragglers":
        r3 = random.Random(spec["seed"] + 31)
        p["delete_checkpoints"] = True
        p["n_workers"] = r3.randint(2, 4)
        p["plan"].pop("fail", None)
        p["plan"]["slow"] = {str(t): r3.choice([0.03, 0.08, 0.15]) for t in r3.sample(range(0, 10), r3.randint(2, 5))}
        p["stop"] = r3.choice([{"max_num_evaluations": r3.randint(120, 300)}, {"max_num_trials_started": r3.randint(15, 40)}])
    p["nan_frac"] = rng.choice([0.5, 0.7, 0.85]) if kind == "sync_hb" and rng.random() < 0.4 else 0
    p["early"] = None
    if kind.startswith("hb_") and p["delete_checkpoints"] and rng.random() < 0.45:
        p["early"] = {"max_num_checkpoints": rng.randint(1, 4), "max_wallclock_time": 1000}
        b = rng.choice([None, "random", "by_level"])
        if b is not None:
            p["early"]["baseline"] = b
        else:
            p["early"].update({"approx_steps": 5, "min_data_at_rung": rng.choice([1, 3])})
    p.update({k: v for k, v in spec.items() if k not in ("seed", "kind", "arm") and not k.startswith("_")})
    return p


def run_case(spec):
    o = Obs()
    p = expand(spec)
    kind = p["kind"]
    o.count("runs")
    sched_extra = {}
    if p["early"]:
        sched_extra["early_checkpoint_removal_kwargs"] = dict(p["early"])
        o.count("runs:early_removal_requested")
    if kind == "dehb" and spec.get("arm") != "stragglers" and random.Random(spec["seed"] + 3).random() < 0.4:
        # documented option: first-bracket trials are stopped at their rung level and promotions start new trials
        sched_extra["support_pause_resume"] = False
        o.count("runs:dehb_without_pause_resume")
    value_fn = None
    if p.get("nan_frac"):
        # diverged trainings: some trials report NaN at every level (synchronous Hyperband counts them as failed and,
        # short of valid results, still promotes them)
        base = gen.Curves(p.get("curves", "continuous"), spec["seed"] + 1, p["max_t"])
        nan_rng_seed = spec["seed"] * 31 + 7

        def value_fn(trial_id, level, cfg, _b=base, _f=p["nan_frac"]):
            if random.Random(nan_rng_seed + trial_id * 7919).random() < _f:
                return float("nan")
            return _b(trial_id, level, cfg)

        o.count("runs:nan_reporting_trials")
    r = simrun.ProcRun(p, spec["seed"], sched_extra=sched_extra, value_fn=value_fn)
    if kind == "pbt" and hasattr(r.scheduler, "_trial_decisions_stack"):
        # read-only probe: which clone decisions are pending after each result (tells "source chosen while its
        # checkpoint still existed, deleted before the clone started" (C20-K1) from "source chosen after deletion")
        inner = r.scheduler.on_trial_result

        def probed(*a, **k):
            ret = inner(*a, **k)
            try:
                r.rec.ev("p.pbt_pending", srcs=[int(e[0]) for e in r.scheduler._trial_decisions_stack])
            except Exception:  # noqa: BLE001
                pass
            return ret

        r.scheduler.on_trial_result = probed
    r.run()
    if r.exc is not None:
        msg = repr(r.exc)[:300]
        if type(r.exc).__name__ == "LoopBoundExceeded":
            o.inconclusive("loop_bound")
        else:
            tag = ""
            if type(r.exc).__name__ == "FileNotFoundError":
                # which backend call raised? -> copy from a deleted checkpoint
                for e in reversed(r.rec.events):
                    if e[1] == "b.copy_checkpoint.raise":
                        tag = ":copy_checkpoint_of_deleted_checkpoint"
                        break
            if kind == "dehb" and msg.startswith("KeyError(None"):
                tag = ":failed_slot_has_no_trial_id"  # DEHB records a failed job under trial id None (C05-K3 seen from here)
            if "Cannot resume trial_id" in msg and "'Failed'" in msg:
                tag = ":resume_of_failed_trial"  # the scheduler promotes a trial whose job has failed (C13-K2 seen from here)
            o.violate("run_completes", f"{kind}:tuner_run_raised:{type(r.exc).__name__}{tag}", {"error": msg})
    o.count("runs:delete_checkpoints" if p["delete_checkpoints"] else "runs:no_delete")
    if simrun.pause_capable(kind) and not p["use_mra"] and p["plan"].get("burst", 1) > 1:
        o.count("runs:pause_capable_with_several_reports_per_poll")
    if p["plan"].get("ext_stop"):
        o.count("runs:pbt_with_jobs_stopped_from_outside")
    if kind in ("dehb", "sync_hb") and p["plan"].get("fail"):
        o.count("runs:synchronous_with_jobs_crashing_after_a_report")
    if p["plan"].get("slow"):
        o.count("runs:synchronous_with_stragglers")
    if kind == "pbt" and (p["plan"].get("short") or p["plan"].get("fail")):
        o.count("runs:pbt_with_jobs_ending_by_themselves")
    events = r.rec.events
    speculative = p["early"] is not None
    has_ck, ever_ck = {}, set()
    state = {}
    stop_decided = set()
    tuning_ended = False
    sig = []
    last_dec = {}
    future_resumes = {}
    for idx, k, pl in events:
        if k == "b.resume_trial.call":
            future_resumes.setdefault(pl["trial_id"], []).append(idx)
    viol = [False]

    def V(clause, mech, **d):
        if not viol[0]:
            o.violate(clause, f"{kind}:{mech}", dict(d, delete_checkpoints=p["delete_checkpoints"], early=p["early"]))
        viol[0] = True

    n_res = n_warm = n_del = 0
    expect_copy, copied = None, False
    shadow = []          # pending clone decisions: (source, "its checkpoint existed when it was chosen")
    popped = None
    for idx, k, pl in events:
        if k == "c.tuning_end":
            tuning_ended = True
        if k == "w.emit":
            if not pl["late"]:
                has_ck[pl["trial"]] = True
                ever_ck.add(pl["trial"])
        elif k == "p.pbt_pending":
            srcs = pl["srcs"]
            if len(srcs) == len(shadow) + 1 and srcs[:-1] == [x[0] for x in shadow]:
                src = srcs[-1]
                shadow.append([src, has_ck.get(src, False) or src not in ever_ck, 0])
                o.count("decided:pbt_clone_source_choices")
            elif srcs != [x[0] for x in shadow]:
                shadow = [[x, None, 0] for x in srcs]  # probe out of step: no claim about these entries
        elif k == "s.suggest.ret":
            rr = pl["ret"]
            expect_copy = rr["ckpt"] if (rr is not None and rr["spawn"] and rr["ckpt"] is not None) else None
            copied = False
            popped = None
            if expect_copy is not None and shadow and shadow[-1][0] == expect_copy:
                popped = shadow.pop()
            if rr is not None and rr["spawn"] and rr["ckpt"] is None:
                for ent in shadow:
                    ent[2] += 1  # a trial was started from scratch although this clone decision was pending (PBT's suggest pops
                    #              the latest pending decision whenever there is one)
        elif k == "b.start_trial.ret":
            state[pl["ret"]["trial_id"]] = "running"
            if expect_copy is not None and not copied:
                V("warm_start_copies_checkpoint", "trial_started_without_copying_the_checkpoint_it_is_warm_started_from",
                  src=expect_copy, tgt=pl["ret"]["trial_id"])
            expect_copy = None
        elif k == "b.copy_checkpoint.call":
            src, tgt = pl["src"], pl["tgt"]
            copied = True
            o.count("decided:warm_starts")
            n_warm += 1
            sig.append(("copy", state.get(src)))
            if state.get(src) in ("completed", "failed"):
                o.count(f"decided:warm_starts_from_{state.get(src)}_trial")
            if src in ever_ck and not has_ck.get(src, False):
                if popped is not None and popped[0] == src and popped[1] is False:
                    V("checkpoint_exists_at_warm_start", "clone_source_chosen_after_its_checkpoint_was_deleted", src=src, tgt=tgt, src_state=state.get(src))
                elif popped is not None and popped[0] == src and popped[2] > 0:
                    # not C20-K1 (source stopped within the batch in which it was chosen, before the very next suggestion)
                    V("checkpoint_exists_at_warm_start", "clone_decision_skipped_by_a_from_scratch_suggestion_and_used_after_its_source_was_deleted",
                      src=src, tgt=tgt, from_scratch_suggestions_meanwhile=popped[2])
                else:
                    V("checkpoint_exists_at_warm_start", "warm_start_from_deleted_checkpoint", src=src, tgt=tgt, src_state=state.get(src))
        elif k == "b.copy_checkpoint.ret":
            if has_ck.get(pl["src"], False):
                has_ck[pl["tgt"]] = True
                ever_ck.add(pl["tgt"])
        elif k == "b.resume_trial.call":
            t = pl["trial_id"]
            o.count("decided:resumes")
            n_res += 1
            sig.append(("resume", has_ck.get(t, False)))
            if value_fn is not None and value_fn(t, 1, None) != value_fn(t, 1, None):
                o.count("decided:resumes_of_nan_trials")
            if t in ever_ck and not has_ck.get(t, False):
                if speculative:
                    o.count("resumed_without_checkpoint_after_speculative_removal")
                else:
                    V("checkpoint_exists_at_resume", "resume_of_trial_whose_checkpoint_was_deleted", trial=t)
        elif k == "b.resume_trial.ret":
            state[pl["trial_id"]] = "running"
        elif k == "s.on_trial_result.ret":
            last_dec[pl["trial_id"]] = pl["ret"]
            if pl["ret"] == "STOP":
                stop_decided.add(pl["trial_id"])
                state[pl["trial_id"]] = "stopped"
        elif k == "b.pause_trial.ret":
            state[pl["trial_id"]] = "paused"
        elif k == "b.stop_trial.ret":
            state[pl["trial_id"]] = "stopped"
        elif k == "s.on_trial_complete.call":
            state[pl["trial_id"]] = "completed"
        elif k == "s.on_trial_error.call":
            state[pl["trial_id"]] = "failed"
        elif k == "b.delete_checkpoint.call":
            t = pl["trial_id"]
            if not tuning_ended:
                o.count("decided:deletes_before_end")
                n_del += 1
                st = state.get(t)
                sig.append(("delete", st))
                if not p["delete_checkpoints"]:
                    V("deletion_disabled", "checkpoint_deleted_although_deletion_disabled", trial=t, state=st)
                elif st == "running":
                    V("never_delete_running", "checkpoint_of_running_trial_deleted", trial=t)
                elif st == "paused":
                    if speculative:
                        o.count("early_removals")
                    elif kind in ("sync_hb", "dehb"):
                        o.count("decided:sync_paused_deletes")
                        later = [i for i in future_resumes.get(t, []) if i > idx]
                        if later:
                            V("removed_only_if_never_resumed", "checkpoint_of_paused_trial_deleted_but_trial_resumed_later", trial=t)
                    else:
                        V("paused_trial_keeps_checkpoint", "checkpoint_of_paused_trial_deleted_without_early_removal_request", trial=t)
                elif st is None:
                    V("legal_delete", "checkpoint_of_unknown_trial_deleted", trial=t)
            has_ck[t] = False
    for e in events[-40:]:
        if e[1].startswith(("b.delete", "b.copy", "b.resume", "b.stop_trial", "b.pause", "s.on_trial_result.ret", "c.tuning_end")):
            o.ev(e[0], e[1], {k: v for k, v in e[2].items() if k in ("trial_id", "src", "tgt", "ret") and not isinstance(v, dict)})
    r.cleanup()
    o.set_sig(sig, nontrivial=(n_res + n_warm) > 0 and (n_del > 0 or not p["delete_checkpoints"]))
    o.sample = {"kind": kind, "delete_checkpoints": p["delete_checkpoints"], "early": p["early"], "n_workers": p["n_workers"],
                "resumes": n_res, "warm_starts": n_warm, "deletes_before_end": n_del, "trace": [list(map(str, s)) for s in sig[:20]]}
    return o.result()
