"""pytest plugin: run the repository's own tests with the Rung contracts on (``-p stv.pytest_contracts``).

The contracts record into one Obs; its counters and violations are written to $STV_CONTRACT_OUT at session end.
The import shim of the checks (yahpo_gym / ConfigSpace / numpy.NaN) makes test modules collect that do not collect
under the plain suite, so more of the repository's tests drive the contracts.
"""
import json
import os

from stv import envshim  # noqa: F401
from stv.obs import Obs

_o = Obs()


def pytest_configure(config):
    from stv import contracts

    contracts.install_rung()
    contracts._cur["obs"] = _o


def pytest_sessionfinish(session, exitstatus):
    out = os.environ.get("STV_CONTRACT_OUT")
    if out:
        with open(out, "w") as f:
            json.dump({"counters": _o.counters, "violations": _o.violations, "exitstatus": int(exitstatus)}, f, default=repr)
