"""Independent reference models for asynchronous Hyperband, written from the documentation
(HyperbandScheduler docstring, StoppingRungSystem / PromotionRungSystem / CostPromotionRungSystem /
RUSHDecider docstrings, and the statements of C03 / C04). Plain lists + numpy.quantile; no code
shared with the repository."""
import numpy as np

EPS = np.finfo(float).eps


def in_band(a, b, k=16.0, scale=0.0):
    """'equal up to round-off': |a-b| <= k*eps*max(|a|,|b|,scale). ``scale`` is the magnitude of
    the data the quantile was interpolated from (its round-off error is O(eps * that magnitude),
    e.g. numpy.quantile([0,0,0,0,1,...], 1/3) = 4.4e-16 instead of 0)."""
    return abs(a - b) <= k * EPS * max(abs(a), abs(b), scale, 1e-300)


class RefRungs:
    """Rung systems (one shared, or one per bracket) holding plain entry lists."""

    def __init__(self, levels, max_t, mode, brackets, per_bracket):
        self.levels = list(levels)  # all < max_t, increasing
        self.max_t = max_t
        self.mode = mode
        self.num_brackets = min(brackets, len(self.levels) + 1)
        self.per_bracket = per_bracket
        nsys = self.num_brackets if per_bracket else 1
        # system s -> {level: [entry dict]} ; entry = {trial, value, promoted, cost}
        self.systems = [
            {lv: [] for lv in (self.levels[s:] if per_bracket else self.levels)} for s in range(nsys)
        ]

    def q(self, level):
        i = self.levels.index(level)
        nxt = self.levels[i + 1] if i + 1 < len(self.levels) else self.max_t
        return level / nxt

    def sys_of(self, bracket):
        return self.systems[bracket if self.per_bracket else 0]

    def own_levels(self, bracket):
        return self.levels[bracket:]

    def next_level(self, level):
        i = self.levels.index(level)
        return self.levels[i + 1] if i + 1 < len(self.levels) else self.max_t

    def cutoff(self, entries, level):
        vals = [e["value"] for e in entries]
        if len(vals) < 2:
            return None
        q = self.q(level)
        return float(np.quantile(np.array(vals, dtype=float), q if self.mode == "min" else 1.0 - q))

    def better_or_equal(self, v, c):
        return v <= c if self.mode == "min" else v >= c

    def better(self, a, b):
        return a < b if self.mode == "min" else a > b


class RefStopping(RefRungs):
    """C03: continue iff metric no worse than numpy.quantile(all metrics at the rung incl. own, q)."""

    def __init__(self, *a, rush_candidates=0, **k):
        super().__init__(*a, **k)
        self.rush_candidates = rush_candidates
        self.rush_thresholds = {}

    def on_report(self, trial, bracket, level, value):
        """returns (expected, margin_info): expected in {'STOP','CONTINUE','EITHER'} + the kind of
        decision ('max_t', 'rung', 'none')."""
        if level >= self.max_t:
            return "STOP", "max_t", None
        sysd = self.sys_of(bracket)
        if level in self.own_levels(bracket) and level in sysd:
            entries = sysd[level]
            if any(e["trial"] == trial for e in entries):
                return "CONTINUE", "reentry", None
            entries.append({"trial": trial, "value": value})
            c = self.cutoff(entries, level)
            if c is None:
                exp = "CONTINUE"
            elif in_band(value, c, scale=max(abs(e["value"]) for e in entries)):
                exp = "EITHER"
            else:
                exp = "CONTINUE" if self.better_or_equal(value, c) else "STOP"
            info = {"n": len(entries), "cutoff": c, "value": value, "q": self.q(level)}
            if self.rush_candidates > 0:
                # RUSH (RUSHScheduler / RUSHDecider docstrings): the first ``rush_candidates`` trials are threshold candidates. A
                # candidate that continues under the quantile rule sets the threshold of the rung (the best such value); any
                # other trial continues iff the quantile rule lets it AND it is no worse than the threshold of the rung.
                key = (bracket if self.per_bracket else 0, level)
                st = self.rush_thresholds.setdefault(key, {"thr": None, "unsure": False})
                if int(trial) < self.rush_candidates:
                    if exp == "CONTINUE":
                        st["thr"] = value if st["thr"] is None or self.better(value, st["thr"]) else st["thr"]
                    elif exp == "EITHER" and (st["thr"] is None or self.better(value, st["thr"])):
                        st["unsure"] = True  # whether this candidate set the threshold depends on round-off
                    info["rush"] = "candidate"
                else:
                    info["rush"] = {"threshold": st["thr"], "unsure": st["unsure"]}
                    if st["unsure"]:
                        info["rush_unjudged"] = True
                    elif st["thr"] is not None and exp != "STOP" and self.better(st["thr"], value):
                        exp = "STOP"
                        info["rush_stop"] = True
            return exp, "rung", info
        return "CONTINUE", "none", None


class RefPromotion(RefRungs):
    """C04: pause exactly at the milestone; promotion scan top-down."""

    def __init__(self, *a, variant="promotion", rush_candidates=0, **k):
        super().__init__(*a, **k)
        self.variant = variant
        self.rush_candidates = rush_candidates
        self.rush_thresholds = {}
        self.running = {}  # trial -> {milestone, resume_from, bracket}
        self.promoted_from = set()  # (sys index, level, trial)

    def first_milestone(self, bracket):
        own = self.own_levels(bracket)
        return own[0] if own else self.max_t

    def start(self, trial, bracket):
        self.running[trial] = {"milestone": self.first_milestone(bracket), "resume_from": None, "bracket": bracket}

    def resume(self, trial, bracket, resume_from, milestone):
        self.running[trial] = {"milestone": milestone, "resume_from": resume_from, "bracket": bracket}

    def on_report(self, trial, level, value, cost=None):
        """returns (expected decision, kind)."""
        info = self.running[trial]
        if level >= self.max_t:
            return "STOP", "max_t"
        if level == info["milestone"]:
            sysd = self.sys_of(info["bracket"])
            if level in sysd:
                if not any(e["trial"] == trial for e in sysd[level]):
                    sysd[level].append({"trial": trial, "value": value, "promoted": False, "cost": cost})
            return "PAUSE", "milestone"
        if level > info["milestone"]:
            return "ANY", "beyond_milestone"
        return "CONTINUE", "before_milestone"

    def remove(self, trial):
        self.running.pop(trial, None)

    def eligible(self, bracket, cap):
        """Scan from the top. Returns list of (level, next_level, set of acceptable trials,
        decided?) for the first rung holding an eligible trial, or None. ``decided`` False means
        the candidate's metric is within round-off of the cutoff: either outcome is acceptable."""
        sysd = self.sys_of(bracket)
        for level in sorted(sysd.keys(), reverse=True):
            if not level < cap:
                continue
            entries = sysd[level]
            if self.variant == "cost_promotion":
                res = self._eligible_cost(entries, level)
            else:
                res = self._eligible_quantile(entries, level)
            if res == "ambiguous":
                return {"ambiguous": True}
            if res is not None:
                acc, sure = res
                return {"level": level, "next": self.next_level(level), "accept": acc, "sure": sure}
        return None

    def _eligible_quantile(self, entries, level):
        c = self.cutoff(entries, level)
        if c is None:
            return None
        cand = [e for e in entries if not e["promoted"] and self._rush_ok(e, level)]
        if not cand:
            return None
        best = cand[0]
        for e in cand[1:]:
            if self.better(e["value"], best["value"]):
                best = e
        ties = {e["trial"] for e in cand if e["value"] == best["value"] or in_band(e["value"], best["value"])}
        if in_band(best["value"], c, scale=max(abs(e["value"]) for e in entries)):
            return ties, False
        if self.better_or_equal(best["value"], c):
            return ties, True
        return None

    def _rush_ok(self, e, level):
        return True

    def _eligible_cost(self, entries, level):
        """Documented rule: order by metric (best first); C(k) = sum_{i<=k} cost_i; K = max k with
        C(k) <= q*C(N); any not yet promoted entry ranked <= K can be promoted, best first."""
        if len(entries) < 2:
            return None
        if len({e["value"] for e in entries}) < len(entries):
            return "ambiguous"
        order = sorted(entries, key=lambda e: e["value"], reverse=(self.mode == "max"))
        total = sum(e["cost"] for e in order)
        thr = self.q(level) * total
        acc = 0.0
        for e in order:
            acc += e["cost"]
            if acc > thr and not in_band(acc, thr):
                return None
            sure = not in_band(acc, thr)
            if not e["promoted"]:
                ties = {x["trial"] for x in order if not x["promoted"] and x["value"] == e["value"]}
                return ties, sure
        return None

    def mark_promoted(self, bracket, level, trial):
        for e in self.sys_of(bracket)[level]:
            if e["trial"] == trial:
                already = e["promoted"]
                e["promoted"] = True
                return already
        return None
