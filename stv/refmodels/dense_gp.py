"""Independent dense Gaussian-process reference (DESIGN §3.4, used by C08).

Written from the textbook definitions (Rasmussen & Williams, ch. 2 and eq. 4.17), not from the
repository's code:

    Matern-5/2      k(x, x') = c (1 + sqrt5 r + 5/3 r^2) exp(-sqrt5 r),   r^2 = sum_k ib_k^2 (x_k - x'_k)^2
    system matrix   A = K + diag(noise)                       (noise: scalar sigma^2 or a vector)
    mean            mu*  = m* + k*^T A^-1 (y - m)
    variance        var* = k** - k*^T A^-1 k*
    covariance      S*   = K** - K*^T A^-1 K*
    evidence        nlml = 1/2 (y-m)^T A^-1 (y-m) + 1/2 log|A| + n/2 log 2 pi

Everything is a plain dense computation on numpy arrays. Inputs are float64; the arithmetic is done
in ``WORK`` = numpy's extended precision (x86 80-bit long double, eps 1.1e-19) when the platform has
it, else float64, with a hand-written outer-product Cholesky and substitutions (no LAPACK, so the
route differs from the code under test, which uses scipy's potrf / trtrs). The mpmath versions
(50 digits) are exact for all practical purposes and are used on small n to calibrate and to
continuously re-validate both this reference and the tolerance model.
"""
import math

import numpy as np

EPS = float(np.finfo(np.float64).eps)
WORK = np.longdouble if float(np.finfo(np.longdouble).eps) < 1e-18 else np.float64
WORK_EPS = float(np.finfo(WORK).eps)
SQRT5 = WORK(5) ** WORK(0.5)


# ----------------------------------------------------------------------------- kernels
def sqdist(X1, X2, ib, dtype=None):
    """r^2[i, j] = sum_k (ib_k (X1[i,k] - X2[j,k]))^2 from coordinate differences."""
    dt = dtype or WORK
    X1 = np.asarray(X1, dtype=dt)
    X2 = np.asarray(X2, dtype=dt)
    ib = np.broadcast_to(np.asarray(ib, dtype=dt).reshape(-1), (X1.shape[1],))
    diff = (X1[:, None, :] - X2[None, :, :]) * ib[None, None, :]
    return np.sum(diff * diff, axis=2)


def matern52(X1, X2, ib, c=1.0, sqrt_offset=0.0, dtype=None):
    """Textbook Matern-5/2 Gram matrix. ``sqrt_offset`` (default 0 = the textbook kernel) is the
    documented regulariser of the code under test: sqrt(5 r^2) is evaluated as
    sqrt(5 r^2 + sqrt_offset)."""
    dt = dtype or WORK
    r2 = sqdist(X1, X2, ib, dt)
    sr = np.sqrt(dt(5) * r2 + dt(sqrt_offset))  # = sqrt5 * r for sqrt_offset == 0
    return dt(c) * (dt(1) + sr + dt(5) / dt(3) * r2) * np.exp(-sr)


def kumaraswamy(x, a, b, eps_rescale=0.0, dtype=None):
    """warp(x) = 1 - (1 - r(x)^a)^b with r mapping [0,1] linearly onto [eps, 1-eps]."""
    dt = dtype or WORK
    x = np.asarray(x, dtype=dt)
    r = dt(eps_rescale) + (dt(1) - dt(2) * dt(eps_rescale)) * x
    return dt(1) - np.power(dt(1) - np.power(r, np.asarray(a, dtype=dt)), np.asarray(b, dtype=dt))


# ----------------------------------------------------------------------------- dense algebra
def cholesky(A):
    """Outer-product (right-looking) Cholesky in WORK precision; None if a pivot is <= 0."""
    A = np.array(A, dtype=WORK, copy=True)
    n = A.shape[0]
    L = np.zeros_like(A)
    for j in range(n):
        p = A[j, j]
        if not (p > 0) or not np.isfinite(p):
            return None
        d = np.sqrt(p)
        L[j, j] = d
        if j + 1 < n:
            col = A[j + 1:, j] / d
            L[j + 1:, j] = col
            A[j + 1:, j + 1:] -= np.outer(col, col)
    return L


def solve_lower(L, B):
    """Forward substitution L Z = B (B matrix)."""
    B = np.array(B, dtype=WORK, copy=True)
    if B.ndim == 1:
        B = B.reshape(-1, 1)
    n = L.shape[0]
    Z = np.zeros_like(B)
    for i in range(n):
        Z[i] = (B[i] - L[i, :i] @ Z[:i]) / L[i, i]
    return Z


def solve_upper_t(L, B):
    """Back substitution L^T Z = B."""
    B = np.array(B, dtype=WORK, copy=True)
    n = L.shape[0]
    Z = np.zeros_like(B)
    for i in range(n - 1, -1, -1):
        Z[i] = (B[i] - L[i + 1:, i] @ Z[i + 1:]) / L[i, i]
    return Z


def cond2(A):
    """2-norm condition number of the (symmetric) system matrix, float64 SVD."""
    s = np.linalg.svd(np.asarray(A, dtype=np.float64), compute_uv=False)
    if not np.all(np.isfinite(s)) or s[-1] <= 0:
        return float("inf")
    return float(s[0] / s[-1])


class Posterior:
    """Dense posterior for system matrix A (n,n), residual targets R = Y - m (n,m)."""

    def __init__(self, A, R):
        self.n = A.shape[0]
        self.A = np.asarray(A, dtype=WORK)
        R = np.asarray(R, dtype=WORK)
        self.R = R.reshape(self.n, -1)
        self.L = cholesky(self.A)
        self.ok = self.L is not None
        if not self.ok:
            return
        self.P = solve_lower(self.L, self.R)  # L^-1 R
        self.alpha = solve_upper_t(self.L, self.P)  # A^-1 R
        self.quad = np.sum(self.P * self.P, axis=0)  # R_j^T A^-1 R_j
        self.logdet = WORK(2) * np.sum(np.log(np.diag(self.L)))

    def nlml(self):
        """One value per target column."""
        return WORK(0.5) * self.quad + WORK(0.5) * self.logdet + WORK(self.n) * WORK(0.5) * WORK(
            math.log(2 * math.pi)
        )

    def predict(self, Kxs, kss, mstar, Kss=None):
        """Kxs (n, nt) cross-covariances, kss (nt,) prior variances, mstar (nt,) prior means.
        Returns means (nt, m), raw variances (nt,), q = k*^T A^-1 k* (nt,), and the joint
        covariance if the full test Gram Kss is given."""
        Kxs = np.asarray(Kxs, dtype=WORK)
        V = solve_lower(self.L, Kxs)
        means = Kxs.T @ self.alpha + np.asarray(mstar, dtype=WORK).reshape(-1, 1)
        q = np.sum(V * V, axis=0)
        var = np.asarray(kss, dtype=WORK).reshape(-1) - q
        cov = None
        if Kss is not None:
            cov = np.asarray(Kss, dtype=WORK) - V.T @ V
        return means, var, q, cov


# ----------------------------------------------------------------------------- mpmath (calibration)
def mp_posterior(A, R, Kxs, kss, mstar, dps=50):
    """Exact (50 digit) posterior for the float matrices given; returns floats-as-mpf lists."""
    import mpmath as mp

    with mp.workdps(dps):
        n = A.shape[0]
        Am = mp.matrix([[mp.mpf(float(A[i, j])) for j in range(n)] for i in range(n)])
        R = np.asarray(R, dtype=np.float64).reshape(n, -1)
        m = R.shape[1]
        nt = Kxs.shape[1]
        Lm = mp.cholesky(Am)
        logdet = 2 * sum(mp.log(Lm[i, i]) for i in range(n))
        alphas, quads = [], []
        for j in range(m):
            r = mp.matrix([mp.mpf(float(R[i, j])) for i in range(n)])
            a = mp.cholesky_solve(Am, r)
            alphas.append(a)
            quads.append(sum(r[i] * a[i] for i in range(n)))
        means = [[None] * m for _ in range(nt)]
        var = []
        for t in range(nt):
            k = mp.matrix([mp.mpf(float(Kxs[i, t])) for i in range(n)])
            b = mp.cholesky_solve(Am, k)
            var.append(mp.mpf(float(kss[t])) - sum(k[i] * b[i] for i in range(n)))
            for j in range(m):
                means[t][j] = mp.mpf(float(mstar[t])) + sum(k[i] * alphas[j][i] for i in range(n))
        nlml = [quads[j] / 2 + logdet / 2 + mp.mpf(n) / 2 * mp.log(2 * mp.pi) for j in range(m)]
        return {
            "means": np.array([[float(x) for x in row] for row in means]).reshape(nt, m),
            "var": np.array([float(x) for x in var]),
            "nlml": np.array([float(x) for x in nlml]),
        }


def mp_matern52(X1, X2, ib, c=1.0, sqrt_offset=0.0, dps=50):
    import mpmath as mp

    with mp.workdps(dps):
        X1 = np.asarray(X1, dtype=np.float64)
        X2 = np.asarray(X2, dtype=np.float64)
        ib = np.broadcast_to(np.asarray(ib, dtype=np.float64).reshape(-1), (X1.shape[1],))
        out = np.zeros((X1.shape[0], X2.shape[0]))
        for i in range(X1.shape[0]):
            for j in range(X2.shape[0]):
                r2 = sum(
                    (mp.mpf(float(ib[k])) * (mp.mpf(float(X1[i, k])) - mp.mpf(float(X2[j, k])))) ** 2
                    for k in range(X1.shape[1])
                )
                sr = mp.sqrt(5 * r2 + mp.mpf(sqrt_offset))
                out[i, j] = float(mp.mpf(float(c)) * (1 + sr + mp.mpf(5) / 3 * r2) * mp.exp(-sr))
        return out
