"""Richardson-extrapolated central differences with an error estimate (DESIGN §3.4).

Independent of the code under test: only uses scalar function values it is given.

For a scalar function ``phi(t)`` of one real variable (a line through the point of interest)

    D(h)   = (phi(h) - phi(-h)) / (2h)            = phi'(0) + c2 h^2 + c4 h^4 + ...
    R      = (4 D(h/2) - D(h)) / 3                = phi'(0) - c4 h^4 / 4 + ...

``trunc = |R - D(h/2)|`` is the (over-)estimate of the truncation error used as "the
extrapolation's own error estimate": it is the full error of the *less* accurate of the two
numbers that were combined. Round-off is estimated separately from a noise level ``delta`` of
the function values: the worst case effect of value errors of size ``delta`` on R is
``(4 * 2 + 1) / 3 * delta / h = 3 delta / h``. ``delta`` is the larger of (a) the measured spread
of the values under tiny perturbations of the argument (:func:`noise_level`) and (b) a quarter of
the 4th difference of the five values on the stencil, which sees value errors at the scale of
the stencil (quantisation of a flat function, which tiny perturbations do not reveal).

A derivative estimate is *trustworthy* iff ``trunc + noise`` does not exceed the acceptable
error *and* it lies inside the error bar of every estimate computed before with another step.
The caller decides what to do with untrustworthy estimates (this framework: inconclusive).
"""
import math
from dataclasses import dataclass
from typing import Callable, Optional, Sequence

import numpy as np


@dataclass
class Deriv:
    value: float  # Richardson estimate R
    trunc: float  # |R - D(h/2)| (callers may enlarge it by cross-checks against other step sizes)
    noise: float  # 3 * delta / h
    h: float
    finite: bool  # all function values finite
    d4: float = 0.0  # |4th difference| of the 5 values on the line (0 if the centre value was not given)
    trusted: bool = False  # set by pick / best_of_ladder

    @property
    def err(self) -> float:
        return self.trunc + self.noise


def richardson_from_values(fp, fm, fp2, fm2, h: float, delta: float = 0.0, f0: Optional[float] = None) -> Deriv:
    """Derivative at 0 from phi(h), phi(-h), phi(h/2), phi(-h/2) (and phi(0) for the noise check).

    With the centre value, the 4th difference phi(-h) - 4 phi(-h/2) + 6 phi(0) - 4 phi(h/2) + phi(h)
    (= (h/2)^4 times the 4th derivative, plus value errors with weights up to 6) measures value
    errors at the scale of the stencil. ``delta`` is replaced by ``max(delta, d4 / 4)``.
    Contamination by the 4th derivative only makes the estimate more conservative (it is of higher
    order than ``trunc``)."""
    vals = (fp, fm, fp2, fm2) + ((f0,) if f0 is not None else ())
    if not all(math.isfinite(v) for v in vals) or not math.isfinite(delta):
        return Deriv(float("nan"), float("inf"), float("inf"), h, False)
    d1 = (fp - fm) / (2.0 * h)
    d2 = (fp2 - fm2) / h
    r = (4.0 * d2 - d1) / 3.0
    d4 = abs(fm - 4.0 * fm2 + 6.0 * f0 - 4.0 * fp2 + fp) if f0 is not None else 0.0
    return Deriv(r, abs(r - d2), 3.0 * max(delta, d4 / 4.0) / h, h, True, d4)


def richardson(phi: Callable[[float], float], h: float, delta: float = 0.0, f0: Optional[float] = None) -> Deriv:
    return richardson_from_values(phi(h), phi(-h), phi(0.5 * h), phi(-0.5 * h), h, delta, f0)


def _acceptable(d: Deriv, prev: Sequence[Deriv], tol_of) -> bool:
    """Own error estimate within the acceptable error, and inside the error bar of every estimate
    already computed with another step size (each error bar contains the truth, so an estimate
    outside one of them is wrong however self-consistent it looks — e.g. all its points on one
    step of a quantised function)."""
    if not d.finite or not (d.err <= tol_of(d.value)):
        return False
    return all(abs(d.value - p.value) <= p.err for p in prev if p.finite)


def pick(derivs: Sequence[Deriv], tol_of: Callable[[float], float]) -> Deriv:
    """First trustworthy estimate in the given order (``trusted=True``), else the one with the
    smallest error estimate (``trusted=False``). ``tol_of(estimate)`` is the error that is
    acceptable for a derivative of that size."""
    best: Optional[Deriv] = None
    prev = []
    for d in derivs:
        if _acceptable(d, prev, tol_of):
            d.trusted = True
            return d
        prev.append(d)
        if best is None or d.err < best.err:
            best = d
    if best is not None:
        best.trusted = False
    return best


def best_of_ladder(phi, steps: Sequence[float], delta: float, tol_of, f0: Optional[float] = None) -> Deriv:
    """Lazy version of :func:`pick`: a step size is evaluated only if the previous ones were not
    trustworthy."""
    best: Optional[Deriv] = None
    prev = []
    for h in steps:
        d = richardson(phi, h, delta, f0)
        if _acceptable(d, prev, tol_of):
            d.trusted = True
            return d
        prev.append(d)
        if best is None or d.err < best.err:
            best = d
    if best is not None:
        best.trusted = False
    return best


def noise_points(x: np.ndarray, rng, reps: int = 4, rel: float = 1e-13) -> np.ndarray:
    """``reps`` tiny random perturbations of ``x`` (relative size ``rel``, far below any step
    size used for differencing, so the true function changes by ~|grad| * rel * |x| only)."""
    scale = np.maximum(np.abs(x), 1e-3)
    out = []
    for _ in range(reps):
        out.append(x + rel * scale * rng.choice([-1.0, 1.0], size=x.shape) * rng.uniform(0.5, 1.0, size=x.shape))
    return np.array(out)


def noise_from_values(f0: float, vals) -> float:
    """Measured round-off level: maximal deviation of the values at :func:`noise_points`
    from the value at ``x``; never less than one ulp of the value."""
    if not math.isfinite(f0) or not all(math.isfinite(v) for v in vals):
        return float("inf")
    dev = max([abs(v - f0) for v in vals] + [0.0])
    return max(dev, float(np.spacing(abs(f0))))


def noise_level(f: Callable[[np.ndarray], float], x: np.ndarray, rng, reps: int = 4, rel: float = 1e-13) -> float:
    f0 = f(x)
    return noise_from_values(f0, [f(p) for p in noise_points(x, rng, reps, rel)])


def line(f: Callable[[np.ndarray], float], x: np.ndarray, direction: np.ndarray) -> Callable[[float], float]:
    """phi(t) = f(x + t * direction)."""
    x = np.array(x, dtype=float)
    direction = np.array(direction, dtype=float)

    def phi(t):
        return float(f(x + t * direction))

    return phi
