"""Richardson-extrapolated central differences with an error estimate (DESIGN §3.4).

Independent of the code under test: only uses scalar function values it is given.

For a scalar function ``phi(t)`` of one real variable (a line through the point of interest)

    D(h)   = (phi(h) - phi(-h)) / (2h)            = phi'(0) + c2 h^2 + c4 h^4 + ...
    R      = (4 D(h/2) - D(h)) / 3                = phi'(0) - c4 h^4 / 4 + ...

``trunc = |R - D(h/2)|`` is the (over-)estimate of the truncation error used as "the
extrapolation's own error estimate": it is the full error of the *less* accurate of the two
numbers that were combined. Round-off is estimated separately from a measured noise level
``delta`` of the function values (see :func:`noise_level`): the worst case effect of value
errors of size ``delta`` on R is ``(4 * 2 + 1) / 3 * delta / h = 3 delta / h``.

A derivative estimate is *trustworthy* w.r.t. a tolerance ``tol`` iff ``trunc + noise <= tol``.
The caller decides what to do with untrustworthy estimates (this framework: inconclusive).
"""
import math
from dataclasses import dataclass
from typing import Callable, Optional, Sequence

import numpy as np


@dataclass
class Deriv:
    value: float  # Richardson estimate R
    trunc: float  # |R - D(h/2)|
    noise: float  # 3 * delta / h
    h: float
    finite: bool  # all four function values finite

    @property
    def err(self) -> float:
        return self.trunc + self.noise


def richardson_from_values(fp, fm, fp2, fm2, h: float, delta: float = 0.0) -> Deriv:
    """Derivative at 0 from phi(h), phi(-h), phi(h/2), phi(-h/2)."""
    vals = (fp, fm, fp2, fm2)
    if not all(math.isfinite(v) for v in vals) or not math.isfinite(delta):
        return Deriv(float("nan"), float("inf"), float("inf"), h, False)
    d1 = (fp - fm) / (2.0 * h)
    d2 = (fp2 - fm2) / h
    r = (4.0 * d2 - d1) / 3.0
    return Deriv(r, abs(r - d2), 3.0 * delta / h, h, True)


def richardson(phi: Callable[[float], float], h: float, delta: float = 0.0) -> Deriv:
    return richardson_from_values(phi(h), phi(-h), phi(0.5 * h), phi(-0.5 * h), h, delta)


def pick(derivs: Sequence[Deriv], tol_of: Callable[[float], float]) -> Deriv:
    """First trustworthy estimate in the given order, else the one with the smallest error
    estimate. ``tol_of(estimate)`` is the tolerance that applies to a derivative of that size."""
    best: Optional[Deriv] = None
    for d in derivs:
        if d.finite and d.err <= tol_of(d.value):
            return d
        if best is None or d.err < best.err:
            best = d
    return best


def best_of_ladder(phi, steps: Sequence[float], delta: float, tol_of) -> Deriv:
    """Lazy version of :func:`pick`: evaluates a step size only if the previous ones were not
    trustworthy."""
    best: Optional[Deriv] = None
    for h in steps:
        d = richardson(phi, h, delta)
        if d.finite and d.err <= tol_of(d.value):
            return d
        if best is None or d.err < best.err:
            best = d
    return best


def noise_points(x: np.ndarray, rng, reps: int = 4, rel: float = 1e-13) -> np.ndarray:
    """``reps`` tiny random perturbations of ``x`` (relative size ``rel``, far below any step
    size used for differencing, so the true function changes by ~|grad| * rel * |x| only)."""
    scale = np.maximum(np.abs(x), 1e-3)
    out = []
    for _ in range(reps):
        out.append(x + rel * scale * rng.choice([-1.0, 1.0], size=x.shape) * rng.uniform(0.5, 1.0, size=x.shape))
    return np.array(out)


def noise_from_values(f0: float, vals) -> float:
    """Measured round-off level: maximal deviation of the values at :func:`noise_points`
    from the value at ``x``; never less than one ulp of the value."""
    if not math.isfinite(f0) or not all(math.isfinite(v) for v in vals):
        return float("inf")
    dev = max([abs(v - f0) for v in vals] + [0.0])
    return max(dev, float(np.spacing(abs(f0))))


def noise_level(f: Callable[[np.ndarray], float], x: np.ndarray, rng, reps: int = 4, rel: float = 1e-13) -> float:
    f0 = f(x)
    return noise_from_values(f0, [f(p) for p in noise_points(x, rng, reps, rel)])


def line(f: Callable[[np.ndarray], float], x: np.ndarray, direction: np.ndarray) -> Callable[[float], float]:
    """phi(t) = f(x + t * direction)."""
    x = np.array(x, dtype=float)
    direction = np.array(direction, dtype=float)

    def phi(t):
        return float(f(x + t * direction))

    return phi
