"""Brute-force Pareto dominance and Pareto layers (minimisation), written from the definition.

``j`` dominates ``i``  iff  X[j] <= X[i] in every coordinate and X[j] < X[i] in at least one.
Layer 0 = points no other point dominates; layer k = the same among what is left after removing
layers 0..k-1. Nothing here shares code or structure with the repository's iterative mask update.
"""
import numpy as np


def dominance_matrix(X):
    """dom[j, i] == True iff point j dominates point i."""
    X = np.asarray(X)
    le = (X[:, None, :] <= X[None, :, :]).all(-1)
    lt = (X[:, None, :] < X[None, :, :]).any(-1)
    return le & lt


def dominated_mask(X):
    """dominated[i] == True iff some other point dominates point i."""
    return dominance_matrix(X).any(axis=0)


def layer_numbers(X):
    """Pareto layer number (0 = non-dominated) of every point."""
    dom = dominance_matrix(X)
    n = dom.shape[0]
    layer = np.full(n, -1, dtype=int)
    alive = np.ones(n, dtype=bool)
    k = 0
    while alive.any():
        # dominated by a point that is still alive
        d = (dom & alive[:, None]).any(axis=0)
        front = alive & ~d
        assert front.any()  # a finite strict partial order always has minimal elements
        layer[front] = k
        alive &= ~front
        k += 1
    return layer


def dominated_mask_slow(X):
    """Pure-Python loops; used only to cross-check the vectorised version."""
    X = [list(map(float, r)) for r in np.asarray(X).tolist()]
    out = []
    for i, a in enumerate(X):
        dominated = False
        for j, b in enumerate(X):
            if j == i:
                continue
            if all(bb <= aa for aa, bb in zip(a, b)) and any(bb < aa for aa, bb in zip(a, b)):
                dominated = True
                break
        out.append(dominated)
    return np.array(out, dtype=bool)
