"""Reference validator for synchronous Hyperband bracket management, written from the class
docstrings of SynchronousBracket / SynchronousHyperbandBracketManager and the statement of C05.

It does not predict slot positions; it *validates* every job the real manager hands out and every
rung transition against the semantic rules:
  * a bracket's rung r has exactly the configured number of slots, each issued once;
  * rung r+1 only opens after all slots of rung r have a result;
  * trials of rung r+1 are exactly the top-k of rung r (NaN = failed ranks last; ties: any tied one);
  * a new bracket is created only if no open bracket has a free slot; bracket i uses rung system
    i mod n; a request for work always returns a job.
"""
import math


def _isnan(x):
    return isinstance(x, float) and math.isnan(x)


class BracketValidator:
    def __init__(self, bracket_rungs, mode, dehb=False):
        self.systems = [list(map(tuple, rs)) for rs in bracket_rungs]
        self.mode = mode
        self.dehb = dehb
        self.brackets = []
        self.viol = []
        self.stats = {"jobs": 0, "results": 0, "rung_completions": 0, "promotions_checked": 0,
                      "new_brackets": 0, "failed_slots": 0, "max_open": 0, "ties_at_cut": 0}

    # ------------------------------------------------------------------ helpers
    def _v(self, clause, mech, detail=None):
        self.viol.append((clause, mech, detail))

    def _new_bracket(self, bid):
        rungs = self.systems[bid % len(self.systems)]
        return {"id": bid, "rungs": rungs, "cur": 0, "issued": {}, "results": {}, "allowed": None,
                "assigned": set()}

    def _complete(self, b):
        return b["cur"] >= len(b["rungs"])

    def _has_free(self, b):
        if self._complete(b):
            return False
        return len(b["issued"]) < b["rungs"][b["cur"]][0]

    def open_brackets(self):
        return [b for b in self.brackets if not self._complete(b)]

    def state_sig(self):
        out = []
        for b in self.brackets:
            out.append((b["cur"], tuple(sorted(b["issued"].items())),
                        tuple(sorted((k, v[0], "nan" if _isnan(v[1]) else v[1]) for k, v in b["results"].items()))))
        return tuple(out)

    # ------------------------------------------------------------------ events
    def on_job(self, bracket_id, rung_index, level, slot_index, trial_id):
        """Validate a job returned by next_job(). Returns the key for on_result."""
        self.stats["jobs"] += 1
        nb = len(self.brackets)
        if bracket_id == nb:
            blockers = [b["id"] for b in self.brackets if self._has_free(b)]
            if blockers:
                self._v("new_bracket_iff_no_free_slot", "new_bracket_opened_although_open_bracket_has_free_slot",
                        {"new": bracket_id, "brackets_with_free_slot": blockers})
            self.brackets.append(self._new_bracket(bracket_id))
            self.stats["new_brackets"] += 1
        elif not 0 <= bracket_id < nb:
            self._v("bracket_ids", "job_for_unknown_bracket_id", {"bracket": bracket_id, "known": nb})
            return None
        b = self.brackets[bracket_id]
        self.stats["max_open"] = max(self.stats["max_open"], len(self.open_brackets()))
        if self._complete(b):
            self._v("rung_order", "job_for_completed_bracket", {"bracket": bracket_id})
            return None
        size, lev = b["rungs"][b["cur"]]
        if rung_index != b["cur"]:
            self._v("resume_only_after_rung_complete", "job_for_rung_other_than_current",
                    {"bracket": bracket_id, "job_rung": rung_index, "current": b["cur"],
                     "results_in_current": len(b["results"]), "size": size})
            return None
        if level != lev:
            self._v("rung_systems_cycle", "job_level_differs_from_configured_rung_level",
                    {"bracket": bracket_id, "offset": bracket_id % len(self.systems), "got": level, "configured": lev})
        if slot_index in b["issued"] or not 0 <= slot_index < size:
            self._v("rung_filled_exactly", "slot_issued_twice_or_out_of_range",
                    {"bracket": bracket_id, "rung": rung_index, "slot": slot_index, "size": size})
            return None
        if len(b["issued"]) >= size:
            self._v("rung_filled_exactly", "more_jobs_than_slots_in_rung", {"bracket": bracket_id, "rung": rung_index})
        b["issued"][slot_index] = trial_id
        if rung_index == 0 or self.dehb:
            if trial_id is not None and not self.dehb:
                self._v("rung_filled_by_distinct_trials", "base_rung_job_carries_trial_id", {"trial": trial_id})
        else:
            must, may = b["allowed"]
            self.stats["promotions_checked"] += 1
            if trial_id is None and (None in must or None in may):
                # the rung below was padded with a failed slot that never had a trial (a job the searcher could not fill)
                self.stats["promotion_jobs_for_slot_without_trial"] = self.stats.get("promotion_jobs_for_slot_without_trial", 0) + 1
            elif trial_id is None:
                self._v("promote_exactly_top", "promotion_job_without_trial", {"bracket": bracket_id, "rung": rung_index})
            elif trial_id in b["assigned"]:
                self._v("rung_filled_by_distinct_trials", "trial_assigned_twice_in_rung", {"trial": trial_id})
            elif trial_id not in must and trial_id not in may:
                self._v("promote_exactly_top", "promoted_trial_not_among_top_of_completed_rung",
                        {"trial": trial_id, "must": sorted(must), "may": sorted(may), "bracket": bracket_id, "rung": rung_index,
                         "previous": b.get("prev_results")})
            b["assigned"].add(trial_id)
            if len(b["issued"]) == size and not must <= b["assigned"]:
                self._v("promote_exactly_top", "better_trial_of_completed_rung_not_promoted",
                        {"missing": sorted(must - b["assigned"]), "assigned": sorted(b["assigned"]), "previous": b.get("prev_results")})
        return (bracket_id, rung_index, slot_index)

    def on_result(self, key, trial_id, metric):
        """Record the result the harness returns for a previously issued job."""
        self.stats["results"] += 1
        bracket_id, rung_index, slot_index = key
        b = self.brackets[bracket_id]
        if _isnan(metric):
            self.stats["failed_slots"] += 1
        b["results"][slot_index] = (trial_id, metric)
        size, _ = b["rungs"][b["cur"]]
        if len(b["results"]) == size:
            self.stats["rung_completions"] += 1
            prev = list(b["results"].values())
            b["cur"] += 1
            b["issued"] = {}
            b["results"] = {}
            b["assigned"] = set()
            b["prev_results"] = [(t, "nan" if _isnan(m) else m) for t, m in prev]
            if not self._complete(b):
                k = b["rungs"][b["cur"]][0]
                b["allowed"] = self.top_k(prev, k)

    def top_k(self, entries, k):
        """(must, may): must = strictly better than the k-th best; may = tied with the k-th best.
        Failed (NaN) entries rank after all valid ones."""
        sign = 1.0 if self.mode == "min" else -1.0
        keyed = []
        for t, m in entries:
            keyed.append(((1, 0.0) if _isnan(m) else (0, sign * m), t))
        keyed.sort(key=lambda x: x[0])
        if k >= len(keyed):
            return set(t for _, t in keyed), set()
        kth = keyed[k - 1][0]
        must = {t for key, t in keyed if key < kth}
        may = {t for key, t in keyed if key == kth}
        if len(must) + len(may) == k:
            return must | may, set()
        self.stats["ties_at_cut"] += 1
        return must, may
