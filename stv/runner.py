"""Check runner: tiers, seeds, sharding over the cores, evidence, verdict lines, replay.

Exit codes: 0 = held on everything explored and coverage floors met;
            1 = at least one violation not listed in known_findings.json (VIOLATION line);
            2 = nothing violated but the run is inconclusive (floors not met / harness errors).
"""
import argparse
import importlib
import json
import os
import shutil
import sys
import tempfile
import time

VERIF = os.path.dirname(os.path.dirname(os.path.abspath(__file__)))
PY = "/venv/bin/python"


def _load_known(prop):
    out = []
    # STV_KNOWN_EXTRA: development aid only (triage of candidate findings before they are
    # committed to known_findings.json); never set by the registered commands.
    for path in (os.path.join(VERIF, "known_findings.json"), os.environ.get("STV_KNOWN_EXTRA")):
        if path and os.path.exists(path):
            with open(path) as f:
                data = json.load(f)
            out += [e for e in data.get("findings", []) if e.get("property") == prop]
    return out


def _child_env():
    env = dict(os.environ)
    env["PYTHONPATH"] = VERIF
    env.setdefault("PYTHONHASHSEED", "0")
    env["PYTHONDONTWRITEBYTECODE"] = "1"
    env["OMP_NUM_THREADS"] = "1"
    env["OPENBLAS_NUM_THREADS"] = "1"
    env["MKL_NUM_THREADS"] = "1"
    return env


def _run_shards(mod, shard_files, jobs, shard_timeout, case_timeout):
    """Fork one child per shard, at most ``jobs`` at a time; kill on timeout."""
    from stv.worker import fork_shard

    pending = list(shard_files)
    running = {}  # pid -> (start, shard index)
    status = []
    while pending or running:
        while pending and len(running) < jobs:
            cases_, of = pending.pop(0)
            pid = fork_shard(mod, cases_, of, case_timeout)
            running[pid] = time.time()
        time.sleep(0.02)
        for pid in list(running):
            r, st = os.waitpid(pid, os.WNOHANG)
            if r == pid:
                del running[pid]
                code = os.waitstatus_to_exitcode(st)
                status.append((code, ""))
            elif time.time() - running[pid] > shard_timeout:
                try:
                    os.kill(pid, 9)
                except ProcessLookupError:
                    pass
                os.waitpid(pid, 0)
                del running[pid]
                status.append(("timeout", ""))
    return status


def main(argv=None):
    ap = argparse.ArgumentParser()
    ap.add_argument("prop")
    ap.add_argument("--tier", default=os.environ.get("VERIF_TIER", "quick"))
    ap.add_argument("--replay")
    ap.add_argument("--jobs", type=int, default=min(16, os.cpu_count() or 4))
    ap.add_argument("--max-cases", type=int, default=None)
    ap.add_argument("--no-evidence", action="store_true")
    args = ap.parse_args(argv)
    prop = args.prop.upper()
    tier = args.tier if args.tier in ("quick", "thorough") else "quick"
    seed = int(os.environ.get("VERIF_SEED", "0") or 0)
    t0 = time.time()

    from stv import envshim  # noqa: F401

    if not envshim.repo_is_ours():
        print(f"INCONCLUSIVE property={prop} syne_tune not imported from {envshim.REPO}")
        return 2
    mod = importlib.import_module("stv.props." + prop.lower())

    if args.replay:
        with open(args.replay) as f:
            rep = json.load(f)
        res = mod.run_case(rep["spec"])
        print(json.dumps(res, indent=1, default=repr)[:20000])
        if res["violations"]:
            print(f"VIOLATION property={prop} replay={args.replay}")
            return 1
        return 0

    known = _load_known(prop)
    cases = []
    for k in known:
        for j, spec in enumerate(k.get("cases", [])):
            spec = dict(spec)
            spec["_kf"] = k["id"]
            spec["_kf_status"] = k.get("status", "open")
            cases.append(spec)
    n_kf = len(cases)
    gen = list(mod.cases(tier, seed))
    if args.max_cases:
        gen = gen[: args.max_cases]
    cases.extend(gen)

    jobs = max(1, min(args.jobs, len(cases)))
    shards_per_job = getattr(mod, "SHARDS_PER_JOB", 1)
    nshards = max(1, min(len(cases), jobs * shards_per_job))
    tmp = tempfile.mkdtemp(prefix=f"stv_run_{prop}_")
    results = {}
    shard_status = []
    try:
        shard_files = []
        for s_ in range(nshards):
            sc = [(i, cases[i]) for i in range(s_, len(cases), nshards)]
            shard_files.append((sc, os.path.join(tmp, f"out{s_}.jsonl")))
        shard_timeout = mod.SHARD_TIMEOUT[tier] if hasattr(mod, "SHARD_TIMEOUT") else (
            600 if tier == "quick" else 5400
        )
        if hasattr(mod, "preload"):
            import contextlib
            import io

            with contextlib.redirect_stdout(io.StringIO()):  # import-time chatter of optional deps
                mod.preload()
        shard_status = _run_shards(
            mod, shard_files, jobs, shard_timeout, getattr(mod, "CASE_TIMEOUT", 120)
        )
        for sf, of in shard_files:
            if os.path.exists(of):
                with open(of) as f:
                    for line in f:
                        line = line.strip()
                        if not line:
                            continue
                        try:
                            r = json.loads(line)
                        except Exception:
                            continue
                        results[r["idx"]] = r
    finally:
        shutil.rmtree(tmp, ignore_errors=True)

    # ------------------------------------------------------------------ aggregate
    counters = {}
    sigs = set()
    samples = []
    viol_by_mech = {}
    harness_errors = []
    watchdogs = 0
    not_run = len(cases) - len(results)
    for i in range(len(cases)):
        r = results.get(i)
        if r is None:
            continue
        for k, v in (r.get("counters") or {}).items():
            counters[k] = counters.get(k, 0) + v
        if r.get("harness_error"):
            harness_errors.append((i, r["harness_error"]))
        if r.get("watchdog"):
            watchdogs += 1
        if r.get("nontrivial") and r.get("sig"):
            sigs.add(r["sig"])
        if r.get("nontrivial") and r.get("sample") is not None and len(samples) < 4 and i >= n_kf:
            samples.append({"spec": cases[i], "observed": r["sample"]})
        for v in r.get("violations") or []:
            viol_by_mech.setdefault(v["mechanism"], []).append((i, v, r.get("log_tail")))
    if not samples:
        for i in range(n_kf, len(cases)):
            r = results.get(i)
            if r is not None and r.get("sample") is not None:
                samples.append({"spec": cases[i], "observed": r["sample"]})
                if len(samples) >= 2:
                    break
    if not samples and cases:
        samples.append({"spec": cases[-1], "observed": None})

    open_known = {}
    for k in known:
        if k.get("status", "open") == "open":
            for mname in [k["mechanism"]] if "mechanism" in k else k["mechanisms"]:
                open_known[mname] = k
    lines = []
    new_violations = 0
    known_seen = {}
    rep_dir = os.path.join(VERIF, "replays", prop)
    for mech, lst in sorted(viol_by_mech.items()):
        if mech in open_known:
            known_seen[mech] = len(lst)
            continue
        os.makedirs(rep_dir, exist_ok=True)
        for i, v, tail in lst[:3]:
            from stv.obs import digest

            spec = {k: x for k, x in cases[i].items() if not k.startswith("_kf")}
            path = os.path.join(rep_dir, f"{digest([spec, v['mechanism']])}.json")
            with open(path, "w") as f:
                json.dump(
                    {"property": prop, "tier": tier, "seed": seed, "spec": spec,
                     "violation": v, "log_tail": tail},
                    f, indent=1, default=repr,
                )
            lines.append(f"VIOLATION property={prop} replay={path}")
            lines.append(f"  mechanism={mech} clause={v['clause']} detail={json.dumps(v['detail'], default=repr)[:600]}")
        new_violations += len(lst)
    done_ids = set()
    for mech, k in open_known.items():
        if k["id"] in done_ids:
            continue
        done_ids.add(k["id"])
        names = [k["mechanism"]] if "mechanism" in k else k["mechanisms"]
        seen_n = sum(known_seen.get(n_, 0) for n_ in names)
        if seen_n:
            print(f"KNOWN-FINDING: property={prop} {k['what']} [{k['id']}; seen {seen_n}x]")
        else:
            print(f"NOTE property={prop} known finding {k['id']} did not reproduce in this run")
    for ln in lines:
        print(ln)

    floors = mod.floors(tier) if hasattr(mod, "floors") else {}
    if args.max_cases:
        floors = {}
    unmet = {k: (counters.get(k, 0), m) for k, m in floors.items() if counters.get(k, 0) < m}
    distinct = len(sigs)
    evaluations = len(results)
    inconclusive_reasons = []
    if harness_errors:
        inconclusive_reasons.append(f"harness_errors={len(harness_errors)}")
    if not_run:
        inconclusive_reasons.append(f"cases_not_run={not_run}")
    bad_shards = [s for s in shard_status if s[0] != 0]
    if bad_shards:
        inconclusive_reasons.append(f"shards_failed={len(bad_shards)}")
    if unmet:
        inconclusive_reasons.append("floors_unmet=" + json.dumps(unmet))
    if distinct < 2 or evaluations < 1:
        inconclusive_reasons.append(f"distinct_nontrivial={distinct}")
    max_watchdog = getattr(mod, "MAX_WATCHDOG_FRACTION", 0.02)
    if watchdogs > max_watchdog * max(1, len(cases)):
        inconclusive_reasons.append(f"watchdogs={watchdogs}")

    wall = time.time() - t0
    if not args.no_evidence:
        ev = {
            "property_id": prop,
            "tier": tier,
            "seed": seed,
            "level": getattr(mod, "LEVEL", "exploration"),
            "coverage": {
                "evaluations": evaluations,
                "distinct_nontrivial": distinct,
                "rule": mod.RULE,
                "samples": samples,
                "counters": dict(sorted(counters.items())),
                "floors": floors,
                "floors_unmet": unmet,
                "known_findings_seen": known_seen,
                "inconclusive": {k[len("inconclusive:"):]: v for k, v in counters.items() if k.startswith("inconclusive:")},
                "cases_generated": len(cases),
                "cases_not_run": not_run,
                "shards": nshards,
                "exhaustive": bool(getattr(mod, "EXHAUSTIVE", False)),
            },
            "assumptions": list(getattr(mod, "ASSUMPTIONS", [])),
            "wall_s": round(wall, 2),
            "violations": new_violations,
        }
        if hasattr(mod, "extra_coverage"):
            ev["coverage"].update(mod.extra_coverage(tier, counters))
        os.makedirs(os.path.join(VERIF, "evidence"), exist_ok=True)
        with open(os.path.join(VERIF, "evidence", f"{prop}.json"), "w") as f:
            json.dump(ev, f, indent=1, default=repr)

    summary = (
        f"{prop} tier={tier} seed={seed} cases={evaluations}/{len(cases)} distinct_nontrivial={distinct} "
        f"violations={new_violations} known_seen={sum(known_seen.values())} watchdogs={watchdogs} wall={wall:.1f}s"
    )
    print(summary)
    if os.environ.get("STV_VERBOSE"):
        print(json.dumps(dict(sorted(counters.items())), indent=1))
    if new_violations:
        return 1
    if inconclusive_reasons:
        for i, tb in harness_errors[:3]:
            print(f"harness error in case {i}: {json.dumps(cases[i], default=repr)[:400]}\n{tb}")
        for s in bad_shards[:2]:
            print("shard status:", s[0], s[1][-1500:])
        print(f"INCONCLUSIVE property={prop} " + "; ".join(inconclusive_reasons))
        return 2
    return 0


if __name__ == "__main__":
    sys.exit(main())
