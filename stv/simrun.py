"""Real ``Tuner.run`` workloads (DESIGN §3.3) and the Recorder (DESIGN §3.1).

* ``make_tabular``  – generated BlackboxTabular over the full grid of a small finite space.
* ``SimRun``        – Tuner + UserBlackboxBackend + SimulatorCallback with a scripted time keeper
                      (injected 'real time spent outside the backend'), optional failure injection.
* ``FakeProcBackend`` – the real LocalBackend with only process creation replaced: scripted
                      workers append real ``[tune-metric]`` lines (real Reporter) to the trial's
                      std.out and write real checkpoint files at harness-chosen points between polls.
* ``Recorder``      – one append-only event log per execution: TunerCallback + per-instance wrappers
                      around the public scheduler and backend methods.
"""
import itertools
import json
import os
import random
import sys

import numpy as np

from stv import envshim  # noqa: F401


# ------------------------------------------------------------------------------------ Recorder
class Recorder:
    """Events are tuples (index, kind, payload). Single-threaded loop => one total order."""

    SCHED = ("suggest", "on_trial_add", "on_trial_result", "on_trial_remove", "on_trial_complete", "on_trial_error")
    BACK = ("start_trial", "resume_trial", "pause_trial", "stop_trial", "fetch_status_results",
            "busy_trial_ids", "stop_all", "copy_checkpoint", "delete_checkpoint")

    def __init__(self):
        self.events = []
        self.clock = None  # callable returning simulated time or None
        self.pre_backend = None  # callable run at the entry of every public backend call

    def ev(self, kind, **payload):
        if self.clock is not None:
            try:
                payload["t"] = self.clock()
            except Exception:  # noqa: BLE001
                payload["t"] = None
        self.events.append((len(self.events), kind, payload))

    # -- wrappers -------------------------------------------------------------------------
    def wrap_scheduler(self, scheduler):
        rec = self

        def mk(name, orig):
            def w(*a, **k):
                info = rec._sched_args(name, a, k)
                rec.ev("s." + name + ".call", **info)
                try:
                    r = orig(*a, **k)
                except BaseException as e:  # noqa: BLE001
                    rec.ev("s." + name + ".raise", exc=type(e).__name__, msg=repr(e)[:200], **info)
                    raise
                rec.ev("s." + name + ".ret", ret=rec._sched_ret(name, r), **info)
                return r

            return w

        for name in self.SCHED:
            if hasattr(scheduler, name):
                setattr(scheduler, name, mk(name, getattr(scheduler, name)))

    @staticmethod
    def _sched_args(name, a, k):
        if name == "suggest":
            return {"trial_id": k.get("trial_id", a[0] if a else None)}
        trial = k.get("trial", a[0] if a else None)
        info = {"trial_id": getattr(trial, "trial_id", None)}
        if name in ("on_trial_result", "on_trial_complete"):
            res = k.get("result", a[1] if len(a) > 1 else None)
            info["result"] = dict(res) if isinstance(res, dict) else res
        if name == "on_trial_add":
            info["config"] = dict(trial.config)
        return info

    @staticmethod
    def _sched_ret(name, r):
        if name == "suggest":
            if r is None:
                return None
            return {"spawn": r.spawn_new_trial_id, "ckpt": r.checkpoint_trial_id,
                    "config": None if r.config is None else dict(r.config)}
        return r

    def wrap_backend(self, backend, extra=()):
        rec = self

        def mk(name, orig):
            def w(*a, **k):
                if rec.pre_backend is not None and name in rec.BACK:
                    rec.pre_backend()
                info = rec._back_args(name, a, k)
                rec.ev("b." + name + ".call", **info)
                try:
                    r = orig(*a, **k)
                except BaseException as e:  # noqa: BLE001
                    rec.ev("b." + name + ".raise", exc=type(e).__name__, msg=repr(e)[:200], **info)
                    raise
                rec.ev("b." + name + ".ret", ret=rec._back_ret(name, r), **info)
                return r

            return w

        for name in self.BACK + tuple(extra):
            if hasattr(backend, name):
                setattr(backend, name, mk(name, getattr(backend, name)))

    @staticmethod
    def _back_args(name, a, k):
        if name == "start_trial":
            cfg = k.get("config", a[0] if a else None)
            return {"config": dict(cfg) if cfg is not None else None,
                    "ckpt": k.get("checkpoint_trial_id", a[1] if len(a) > 1 else None)}
        if name == "resume_trial":
            nc = k.get("new_config", a[1] if len(a) > 1 else None)
            return {"trial_id": k.get("trial_id", a[0] if a else None), "new_config": None if nc is None else dict(nc)}
        if name in ("pause_trial", "stop_trial"):
            res = k.get("result", a[1] if len(a) > 1 else None)
            return {"trial_id": k.get("trial_id", a[0] if a else None), "result": dict(res) if isinstance(res, dict) else res}
        if name == "fetch_status_results":
            return {"trial_ids": list(k.get("trial_ids", a[0] if a else []))}
        if name == "copy_checkpoint":
            return {"src": k.get("src_trial_id", a[0] if a else None), "tgt": k.get("tgt_trial_id", a[1] if len(a) > 1 else None)}
        if name == "delete_checkpoint":
            return {"trial_id": k.get("trial_id", a[0] if a else None)}
        if name == "_run_job_and_collect_results":
            return {"trial_id": k.get("trial_id", a[0] if a else None)}
        return {}

    @staticmethod
    def _back_ret(name, r):
        if name in ("start_trial", "resume_trial"):
            return {"trial_id": r.trial_id, "config": dict(r.config)}
        if name == "fetch_status_results":
            st, res = r
            return {"status": {int(t): s for t, (tr, s) in st.items()},
                    "configs": {int(t): dict(tr.config) for t, (tr, s) in st.items()},
                    "results": [(int(t), dict(x)) for t, x in res]}
        if name == "busy_trial_ids":
            return [(int(t), s) for t, s in r]
        if name == "_run_job_and_collect_results":
            status, results = r
            return {"status": status, "results": [dict(x) for x in results]}
        return None

    def callback(self):
        from syne_tune.tuner_callback import TunerCallback

        rec = self

        class RecCallback(TunerCallback):
            def on_tuning_start(self, tuner):
                rec.ev("c.tuning_start")

            def on_tuning_end(self):
                rec.ev("c.tuning_end")

            def on_loop_start(self):
                rec.ev("c.loop_start")

            def on_loop_end(self):
                rec.ev("c.loop_end")

            def on_fetch_status_results(self, trial_status_dict, new_results):
                rec.ev("c.fetch", status={int(t): s for t, (tr, s) in trial_status_dict.items()}, n=len(new_results))

            def on_trial_complete(self, trial, result):
                rec.ev("c.trial_complete", trial_id=trial.trial_id, result=dict(result))

            def on_trial_result(self, trial, status, result, decision):
                rec.ev("c.trial_result", trial_id=trial.trial_id, status=status, result=dict(result), decision=decision,
                       config=dict(trial.config))

            def on_tuning_sleep(self, sleep_time):
                rec.ev("c.sleep", sleep=sleep_time)

            def on_start_trial(self, trial):
                rec.ev("c.start_trial", trial_id=trial.trial_id, config=dict(trial.config))

            def on_resume_trial(self, trial):
                rec.ev("c.resume_trial", trial_id=trial.trial_id, config=dict(trial.config))

        return RecCallback()


# ------------------------------------------------------------------------------------ tables
def table_space(rng):
    """A finite space (2–3 columns) whose full grid becomes the table; JSON description."""
    ncols = rng.choice([2, 2, 3])
    desc = {}
    for i in range(ncols):
        if rng.random() < 0.6:
            lo = rng.randint(0, 3)
            desc[f"x{i}"] = ["randint", lo, lo + rng.randint(1, 4)]
        else:
            desc[f"x{i}"] = ["choice", [f"v{j}" for j in range(rng.randint(2, 4))]]
    return desc


def grid_of(desc):
    cols, vals = [], []
    for name, d in desc.items():
        cols.append(name)
        vals.append(list(range(d[1], d[2] + 1)) if d[0] == "randint" else list(d[1]))
    return cols, [tuple(x) for x in itertools.product(*vals)]


def make_tabular(desc, n_fid, n_seeds, seed, elapsed="cumulative", extra_metrics=(), ties=False):
    """Returns (blackbox, config_space, arrays) – objectives: loss, [extra...], elapsed_time."""
    import pandas as pd
    from syne_tune.blackbox_repository.blackbox_tabular import BlackboxTabular
    from syne_tune.config_space import randint

    from stv.gen import build_space

    cols, grid = grid_of(desc)
    space = build_space(desc)
    hyper = pd.DataFrame(data=[list(g) for g in grid], columns=cols)
    # the column order of the table is independent of the key order of the configuration space (only names are matched)
    perm = list(cols)
    random.Random(seed * 7 + 3).shuffle(perm)
    hyper = hyper[perm]
    names = ["loss"] + list(extra_metrics) + ["elapsed_time"]
    rs = np.random.RandomState(seed)
    obj = rs.rand(len(grid), n_seeds, n_fid, len(names))
    if ties:
        obj[:, :, :, 0] = np.round(obj[:, :, :, 0] * 3) / 3.0
    et = names.index("elapsed_time")
    steps = rs.uniform(0.2, 3.0, size=(len(grid), n_seeds, n_fid))
    if elapsed == "cumulative":
        obj[:, :, :, et] = np.cumsum(steps, axis=2)
    elif elapsed == "noisy":  # non-monotone: cumulative plus noise that can go backwards
        obj[:, :, :, et] = np.cumsum(steps, axis=2) + rs.uniform(-1.5, 1.5, size=steps.shape)
        obj[:, :, :, et] = np.maximum(obj[:, :, :, et], 0.0)
    elif elapsed == "ties":
        obj[:, :, :, et] = np.cumsum(np.round(steps), axis=2)
    else:
        raise ValueError(elapsed)
    bb = BlackboxTabular(
        hyperparameters=hyper,
        configuration_space=space,
        fidelity_space={"epoch": randint(1, n_fid)},
        objectives_evaluations=obj,
        objectives_names=names,
    )
    return bb, space, {"cols": cols, "grid": grid, "obj": obj, "names": names, "table_column_order": perm}


# ------------------------------------------------------------------------------------ time keeper
def scripted_time_keeper(script_seed, mode):
    """SimulatedTimeKeeper whose 'real time since last exit' is scripted: the injected delay at
    the one seam where real time enters the simulation."""
    from syne_tune.backend.simulator_backend.time_keeper import SimulatedTimeKeeper

    class ScriptedTimeKeeper(SimulatedTimeKeeper):
        """The wall clock under ``mark_exit`` / ``real_time_since_last_recent_exit`` is scripted: it only moves
        when the harness calls ``tick()`` (at the entry of every backend call = time spent in the tuner loop
        and scheduler since the backend was left). ``charges`` records (value handed out, wall time that passed
        since the previous hand-out): outside time is charged once iff the two agree."""

        def __init__(self):
            self._wall = 0.0
            self._since_charge = 0.0
            super().__init__()
            self._rng = random.Random(script_seed)
            self.outside = []  # every value handed out
            self.charges = []
            self.ticks = 0

        def tick(self):
            if mode == "zero":
                v = 0.0
            elif mode == "small":
                v = self._rng.uniform(0.0, 0.02)
            else:  # "large": comparable to an epoch
                v = self._rng.choice([0.0, 0.0, self._rng.uniform(0.0, 2.0)])
            self._wall += v
            self._since_charge += v
            self.ticks += 1

        def mark_exit(self):
            self._last_recent_exit = self._wall

        def real_time_since_last_recent_exit(self):
            self._assert_has_started()
            v = self._wall - self._last_recent_exit
            self.outside.append(v)
            self.charges.append((v, self._since_charge))
            self._since_charge = 0.0
            return v

    return ScriptedTimeKeeper()


# ------------------------------------------------------------------------------------ schedulers
SCHED_KINDS = [
    "fifo_random", "fifo_grid", "fifo_bo", "hb_stopping", "hb_promotion", "hb_pasha", "hb_cost_promotion",
    "hb_rush_stopping", "hb_rush_promotion", "sync_hb", "dehb", "pbt", "moasha", "median",
]


def build_scheduler(kind, space, max_t, mode, seed, rng, mra=None, extra=None):
    """Scheduler of the matrix for a (finite) table space. ``mra``: name of max_resource_attr
    (the constant must already be in ``space``)."""
    from syne_tune.optimizer import schedulers as S

    extra = dict(extra or {})
    common = dict(metric="loss", mode=mode, random_seed=seed)
    res = dict(resource_attr="epoch")
    mt = dict(max_resource_attr=mra) if mra else dict(max_t=max_t)
    if kind == "fifo_random":
        return S.FIFOScheduler(space, searcher="random", **common, **extra)
    if kind == "fifo_grid":
        return S.FIFOScheduler(space, searcher="grid", **common, **extra)
    if kind == "fifo_bo":
        so = {"opt_maxiter": 3, "opt_nstarts": 1, "num_init_random": 4, "debug_log": False}
        return S.FIFOScheduler(space, searcher="bayesopt", search_options=so, **common, **extra)
    if kind.startswith("hb_"):
        t = kind[3:]
        kw = dict(type=t, grace_period=1, reduction_factor=rng.choice([2, 3]), brackets=rng.choice([1, 1, 2]),
                  **res, **mt, **common)
        if max_t <= 2:
            kw["brackets"] = 1
        if t == "pasha":
            kw["brackets"] = 1
        if t == "cost_promotion":
            kw["cost_attr"] = "elapsed_time"
        if t.startswith("rush"):
            kw["rung_system_kwargs"] = {"num_threshold_candidates": 0}
        kw.update(extra)
        return S.HyperbandScheduler(space, **kw)
    if kind == "sync_hb":
        from syne_tune.optimizer.schedulers.synchronous import SynchronousGeometricHyperbandScheduler

        mk = dict(max_resource_attr=mra) if mra else dict(max_resource_level=max_t)
        return SynchronousGeometricHyperbandScheduler(space, grace_period=1, reduction_factor=rng.choice([2, 3]),
                                                      **res, **mk, **common, **extra)
    if kind == "dehb":
        from syne_tune.optimizer.schedulers.synchronous import GeometricDifferentialEvolutionHyperbandScheduler

        mk = dict(max_resource_attr=mra) if mra else dict(max_resource_level=max_t)
        return GeometricDifferentialEvolutionHyperbandScheduler(space, grace_period=1, reduction_factor=rng.choice([2, 3]),
                                                                **res, **mk, **common, **extra)
    if kind == "pbt":
        return S.PopulationBasedTraining(space, **res, max_t=max_t, population_size=rng.randint(2, 4),
                                         perturbation_interval=rng.choice([1, 2]), quantile_fraction=rng.choice([0.25, 0.5]),
                                         resample_probability=0.5, **common, **extra)
    if kind == "moasha":
        from syne_tune.optimizer.schedulers.multiobjective import MOASHA

        return MOASHA(space, metrics=["loss", "loss2"], mode=[mode, rng.choice(["min", "max"])], time_attr="epoch",
                      max_t=max_t, grace_period=1, reduction_factor=rng.choice([2, 3]), brackets=1, **extra)
    if kind == "median":
        from syne_tune.optimizer.schedulers.median_stopping_rule import MedianStoppingRule

        base = S.FIFOScheduler(space, searcher="random", **common)
        return MedianStoppingRule(base, resource_attr="epoch", grace_population=rng.choice([1, 2, 5]), grace_time=1, **extra)
    raise ValueError(kind)


def pause_capable(kind):
    return kind in ("hb_promotion", "hb_pasha", "hb_cost_promotion", "hb_rush_promotion", "sync_hb", "dehb")


def stops(kind):
    return kind in ("hb_stopping", "hb_rush_stopping", "pbt", "moasha", "median", "dehb")


# ------------------------------------------------------------------------------------ failure injection
def failing_backend_class():
    """UserBlackboxBackend subclass returning Status.failed with a truncated result list for the
    chosen (trial, run#): fault injection by harness subclass."""
    from syne_tune.backend.trial_status import Status
    from syne_tune.blackbox_repository.simulated_tabular_backend import UserBlackboxBackend

    class FailingBackend(UserBlackboxBackend):
        def __init__(self, *a, fail_plan=None, **k):
            super().__init__(*a, **k)
            self.fail_plan = dict(fail_plan or {})  # (trial, run#) -> keep first k results
            self.run_no = {}

        def _run_job_and_collect_results(self, trial_id, config=None):
            status, results = super()._run_job_and_collect_results(trial_id, config=config)
            run = self.run_no.get(trial_id, 0)
            self.run_no[trial_id] = run + 1
            keep = self.fail_plan.get((trial_id, run))
            if keep is not None:
                return Status.failed, results[: max(0, min(keep, len(results)))]
            return status, results

        recorder = None

        def _process_complete_event(self, *a, **k):
            # ground truth "the simulated job has ended by itself" (not: was stopped / paused by the tuner)
            status = k.get("status", a[2] if len(a) > 2 else None)
            trial_id = k.get("trial_id", a[0] if a else None)
            if self.recorder is not None and status in (Status.completed, Status.failed):
                self.recorder.ev("w.job_end", trial=trial_id, run=self.run_no.get(trial_id, 1) - 1, status=str(status).lower())
            return super()._process_complete_event(*a, **k)

    return FailingBackend


def tag_emissions(backend):
    """Make histories unambiguous: tag every result the simulator's job runner returns with a unique
    id and the run number (instance-level wrap of the harness subclass' method)."""
    state = {"uid": 0, "run": {}}
    orig = backend._run_job_and_collect_results

    def tagged(trial_id, config=None):
        status, results = orig(trial_id, config=config)
        rn = state["run"].get(trial_id, -1) + 1
        state["run"][trial_id] = rn
        for r in results:
            state["uid"] += 1
            r["uid"] = state["uid"]
            r["run"] = rn
        return status, results

    backend._run_job_and_collect_results = tagged
    return state


# ------------------------------------------------------------------------------------ simulated run
class SimRun:
    """One simulated experiment. ``p`` (all JSON):
    kind, mode, n_workers, n_fid, n_seeds, table(desc), elapsed, delays{...}, tuner_sleep, outside,
    use_mra, checkpointing, backend_seed (or None), sjwd (start_jobs_without_delay), async, wait,
    stop{field: value}, max_failures, fail{"trial:run": keep}, results_update_interval
    """

    def __init__(self, p, seed, extra_callbacks=(), sched_extra=None, scheduler=None, name=None):
        from syne_tune import StoppingCriterion, Tuner
        from syne_tune.backend.simulator_backend.simulator_backend import SimulatorConfig
        from syne_tune.backend.simulator_backend.simulator_callback import SimulatorCallback

        self.p = p
        rng = random.Random(seed)
        extra_metrics = ("loss2",) if p["kind"] == "moasha" else ()
        self.bb, space, self.tab = make_tabular(p["table"], p["n_fid"], p["n_seeds"], seed + 11,
                                                elapsed=p.get("elapsed", "cumulative"), extra_metrics=extra_metrics,
                                                ties=p.get("ties", False))
        self.max_t = p["n_fid"]
        mra = "epochs" if p.get("use_mra") else None
        if mra:
            space = dict(space, epochs=self.max_t)
        self.space = space
        self.scheduler = scheduler if scheduler is not None else build_scheduler(
            p["kind"], space, self.max_t, p["mode"], seed % (2**31), rng, mra=mra, extra=sched_extra)
        d = p.get("delays") or {}
        cfg = SimulatorConfig(
            delay_on_trial_result=d.get("result", 0.05),
            delay_complete_after_final_report=max(d.get("complete", 0.05), d.get("result", 0.05)),
            delay_complete_after_stop=d.get("after_stop", 0.05),
            delay_start=d.get("start", 0.05),
            delay_stop=d.get("stop", 0.05),
        )
        self.sim_config = cfg
        fail = {tuple(int(x) for x in k.split(":")): v for k, v in (p.get("fail") or {}).items()}
        cls = failing_backend_class()
        self.backend = cls(
            blackbox=self.bb, elapsed_time_attr="elapsed_time", max_resource_attr=mra,
            seed=p.get("backend_seed"), support_checkpointing=p.get("checkpointing", True),
            simulator_config=cfg, tuner_sleep_time=p.get("tuner_sleep", 0.1), fail_plan=fail,
        )
        self.backend._time_keeper = scripted_time_keeper(seed + 7, p.get("outside", "zero"))
        if p.get("tag_emissions"):
            tag_emissions(self.backend)
        self.rec = Recorder()
        self.rec.clock = lambda: self.backend._time_keeper._current_time
        self.rec.wrap_scheduler(self.scheduler)
        self.rec.wrap_backend(self.backend, extra=("_run_job_and_collect_results",))
        self.backend.recorder = self.rec
        self.rec.pre_backend = self.backend._time_keeper.tick
        self.sim_cb = SimulatorCallback()
        stop = StoppingCriterion(**p["stop"])
        self.tuner = Tuner(
            trial_backend=self.backend, scheduler=self.scheduler, stop_criterion=stop, n_workers=p["n_workers"],
            sleep_time=0, callbacks=[self.sim_cb, self.rec.callback()] + list(extra_callbacks),
            tuner_name=name or f"stv-{os.getpid()}-{seed % 100000}", suffix_tuner_name=True, save_tuner=False,
            start_jobs_without_delay=p.get("sjwd", True), asynchronous_scheduling=p.get("async", True),
            wait_trial_completion_when_stopping=p.get("wait", False), max_failures=p.get("max_failures", 1),
            results_update_interval=p.get("results_update_interval", 1e9), print_update_interval=1e9,
        )
        self.exc = None

    def run(self, max_loops=40000, max_trials=600):
        import io
        import contextlib
        from syne_tune.tuner_callback import TunerCallback

        run = self

        class Bound(TunerCallback):
            """Bounded progress as a logical bound (loop iterations / trials started), never wall clock."""

            def __init__(self):
                self.n = 0

            def on_loop_start(self):
                self.n += 1
                if self.n > max_loops or run.backend.new_trial_id() > max_trials:
                    raise LoopBoundExceeded(f"more than {max_loops} tuner loop iterations or {max_trials} trials")

        self.bound = Bound()
        self.tuner.callbacks.append(self.bound)
        buf = io.StringIO()
        try:
            with contextlib.redirect_stdout(buf):
                self.tuner.run()
        except BaseException as e:  # noqa: BLE001 - recorded, the oracle decides
            if (isinstance(e, (KeyboardInterrupt, SystemExit)) and not type(e).__name__.startswith("Injected")) or type(e).__name__ == "CaseTimeout":
                raise
            self.exc = e
        return self

    def results(self):
        return self.sim_cb.results


def sim_params(rng, kind=None, kinds=None):
    """Random simulator-space parameters (DESIGN §3.3)."""
    kind = kind or rng.choice(kinds or SCHED_KINDS)
    n_fid = rng.choice([3, 4, 5, 8, 9, 12, 27])
    dstyle = rng.choice(["zero", "tiny", "default", "epoch", "epochs"])
    val = {"zero": 0.0, "tiny": 1e-6, "default": 0.05, "epoch": 1.0, "epochs": 4.0}[dstyle]
    delays = {k: (val if rng.random() < 0.7 else rng.choice([0.0, 1e-6, 0.05, 1.0, 4.0]))
              for k in ("result", "complete", "after_stop", "start", "stop")}
    p = {
        "kind": kind, "mode": rng.choice(["min", "max"]), "n_workers": rng.randint(1, 8), "n_fid": n_fid,
        "n_seeds": rng.randint(1, 3), "table": table_space(rng), "elapsed": rng.choice(["cumulative", "cumulative", "noisy", "ties"]),
        "delays": delays, "tuner_sleep": rng.choice([0.0, 0.1, 0.1, 1.0, 1.0, 10.0]),
        "outside": rng.choice(["zero", "zero", "small", "large"]),
        "use_mra": rng.random() < 0.5, "checkpointing": rng.random() < 0.6,
        "backend_seed": rng.choice([None, 0]) if True else None,
        "sjwd": rng.random() < 0.9, "async": rng.random() < 0.85, "wait": rng.random() < 0.3,
        "stop": {"max_num_trials_started": rng.randint(3, 25)},
        "max_failures": 100, "ties": rng.random() < 0.2,
    }
    if p["tuner_sleep"] == 0.0 and p["outside"] == "zero":
        p["tuner_sleep"] = 0.1  # simulated time must be able to advance while all workers are busy
    if kind in ("sync_hb", "dehb", "hb_pasha") and n_fid < 4:
        p["n_fid"] = 4
    return p


# ------------------------------------------------------------------------------------ scripted processes
class FakeProc:
    """Scripted process object standing in for subprocess.Popen (``poll()``, ``kill()``).

    The 'worker' emits report ``seq`` = (trial, run#, level) through the real Reporter into the
    trial's real std.out, and writes a real checkpoint file, whenever the harness lets it advance.
    """

    def __init__(self, backend, trial_id, run_no, levels, exit_code, late, exit_lag, ext_stop_after=None):
        self.ext_stop_after = ext_stop_after  # the job is stopped from outside after this many reports
        self.backend = backend
        self.trial_id = trial_id
        self.run_no = run_no
        self.levels = list(levels)  # levels still to report in this run
        self.exit_code = exit_code  # code once all levels are out (0 or 1)
        self.late = late  # reports written between the last poll and a kill
        self.exit_lag = exit_lag  # polls between last report and visible exit
        self.killed = False
        self.done_since = None
        self.returncode = None
        self.emitted = []

    def poll(self):
        rc = self.returncode
        # the process moves on right after its status was read (inside the backend's poll, not only between polls)
        if rc is None and self.backend.plan.get("progress_inside_poll") and self.backend.plan.get("burst", 3) > 1 \
                and self.backend.prng.random() < 0.25:
            self.advance(self.backend.prng.choice([1, 1, 2, 5]))
        return rc

    def advance(self, n):
        """Called by the harness before a poll: emit up to n reports; maybe become visible as exited."""
        if self.killed or self.returncode is not None:
            return
        for _ in range(n):
            if not self.levels:
                break
            self._emit(self.levels.pop(0))
            if self.ext_stop_after is not None and len(self.emitted) >= self.ext_stop_after:
                break
        if self.ext_stop_after is not None and len(self.emitted) >= self.ext_stop_after:
            # stopped independently of the scheduler (e.g. a user or a time limit kills the job): the
            # backend's own 'stop' marker appears without stop_trial having been called
            self.backend._file_path(trial_id=self.trial_id, filename="stop").touch()
            self.killed = True
            self.returncode = -15
            if self.backend.recorder is not None:
                self.backend.recorder.ev("w.external_stop", trial=self.trial_id, run=self.run_no)
            return
        if not self.levels:
            if self.done_since is None:
                self.done_since = 0
            else:
                self.done_since += 1
            if self.done_since >= self.exit_lag:
                self.returncode = self.exit_code
                if self.backend.recorder is not None:
                    self.backend.recorder.ev("w.job_end", trial=self.trial_id, run=self.run_no,
                                             status="completed" if self.exit_code == 0 else "failed")

    def _emit(self, level, late=False):
        rec = self.backend.emit(self.trial_id, self.run_no, level, late)
        self.emitted.append(rec)

    def kill(self):
        if self.returncode is None and not self.killed:
            # output the worker still wrote between the last poll and the signal
            for _ in range(self.late):
                if not self.levels:
                    break
                self._emit(self.levels.pop(0), late=True)
        self.killed = True
        if self.returncode is None:
            self.returncode = -9


def fake_proc_backend_class():
    from syne_tune.backend.local_backend import LocalBackend
    from syne_tune.report import Reporter

    class FakeProcBackend(LocalBackend):
        """LocalBackend with only process creation replaced (``_schedule``)."""

        def __init__(self, plan, value_fn, max_t, max_resource_attr=None, checkpointing=True,
                     delete_checkpoints=False, recorder=None, extra_fn=None):
            super().__init__(entry_point=os.path.abspath(__file__), delete_checkpoints=delete_checkpoints,
                             rotate_gpus=False)
            self.plan = plan  # dict: seed, burst (max reports per poll), late_max, exit_lag_max, fail{"t:r": after k}
            self.prng = random.Random(plan.get("seed", 0))
            self.value_fn = value_fn
            self.extra_fn = extra_fn
            self.max_t = max_t
            self.mra = max_resource_attr
            self.checkpointing = checkpointing
            self.procs = {}  # trial -> FakeProc (current)
            self.all_procs = []
            self.run_no = {}
            self.reporters = {}
            self.recorder = recorder
            self.emissions = []  # (uid, trial, run, level, late)
            self.uid = 0

        # -- worker side ----------------------------------------------------------------
        def emit(self, trial_id, run_no, level, late):
            self.uid += 1
            uid = self.uid
            key = (trial_id, run_no)
            rep = self.reporters.get(key)
            if rep is None:
                rep = self.reporters[key] = Reporter()
            v = self.value_fn(trial_id, level, None)
            d = dict(v) if isinstance(v, dict) else {"loss": v}
            d.update({"epoch": level, "uid": uid, "run": run_no, "elapsed_time": 0.5 * level + 0.01 * (trial_id % 7)})
            if self.extra_fn is not None:
                d.update(self.extra_fn(trial_id, level, run_no))
            if self.plan.get("dollar_cost"):
                # a job on a priced instance: the Reporter adds st_worker_cost = (seconds since the start of this run) * price;
                # the seconds are scripted (1 s per report of the run)
                from time import perf_counter

                rep.dollar_cost = self.plan["dollar_cost"]
                rep.start = perf_counter() - float(rep.iter + 1)
            path = self.trial_path(trial_id) / "std.out"
            old = sys.stdout
            with open(path, "a") as f:
                sys.stdout = f
                try:
                    rep(**d)
                finally:
                    sys.stdout = old
            # checkpoint written after the report; the kill that follows a STOP/PAUSE arrives before the
            # worker saved a checkpoint for its late reports (otherwise a script without
            # max_resource_attr would resume beyond the level the scheduler paused it at, which the
            # schedulers document as a violation of the training-script contract)
            if not late:
                cdir = self.checkpoint_trial_path(trial_id)
                os.makedirs(cdir, exist_ok=True)
                with open(cdir / "ckpt.json", "w") as f:
                    json.dump({"level": level, "trial": trial_id, "uid": uid}, f)
            rec = {"uid": uid, "trial": trial_id, "run": run_no, "level": level, "late": late}
            self.emissions.append(rec)
            if self.recorder is not None:
                self.recorder.ev("w.emit", **rec)
            return rec

        def _schedule(self, trial_id, config):
            trial_path = self.trial_path(trial_id)
            os.makedirs(trial_path, exist_ok=True)
            (trial_path / "std.out").touch()
            (trial_path / "std.err").touch()
            run = self.run_no.get(trial_id, -1) + 1
            self.run_no[trial_id] = run
            run_max = self.max_t
            if self.mra is not None and self.mra in config:
                run_max = min(int(config[self.mra]), self.max_t)
            start = 1
            ck = self.checkpoint_trial_path(trial_id) / "ckpt.json"
            ck_level = None
            if ck.exists():
                with open(ck) as f:
                    ck_level = json.load(f)["level"]
                if self.checkpointing:
                    start = ck_level + 1
            if start > run_max:
                # warm start from a checkpoint that is already at the last level (PBT clone of a trial
                # that kept running): the script re-evaluates and reports the final level once
                start = run_max
            levels = list(range(start, run_max + 1))
            fail_after = (self.plan.get("fail") or {}).get(f"{trial_id}:{run}")
            exit_code = 0
            if fail_after is not None:
                levels = levels[: max(0, fail_after)]
                exit_code = 1
            short = (self.plan.get("short") or {}).get(f"{trial_id}:{run}")
            if short is not None and fail_after is None:
                # a training script that ends by itself (exit code 0) before the last level
                levels = levels[: max(1, short)]
            proc = FakeProc(self, trial_id, run, levels, exit_code,
                            late=self.prng.randint(0, self.plan.get("late_max", 2)),
                            exit_lag=self.prng.randint(0, self.plan.get("exit_lag_max", 1)),
                            ext_stop_after=(self.plan.get("ext_stop") or {}).get(f"{trial_id}:{run}"))
            self.procs[trial_id] = proc
            self.all_procs.append(proc)
            self.trial_subprocess[trial_id] = proc
            self._busy_trial_id_candidates.add(trial_id)
            if self.recorder is not None:
                self.recorder.ev("w.spawn", trial=trial_id, run=run, start=start, run_max=run_max,
                                 ckpt_level=ck_level, fail_after=fail_after)

        # -- harness side: let workers make progress right before each poll ---------------
        def advance_workers(self, trial_ids=None):
            burst = self.plan.get("burst", 3)
            for tid, proc in list(self.procs.items()):
                if proc.killed or proc.returncode is not None:
                    continue
                slow = (self.plan.get("slow") or {}).get(str(tid))
                if slow is not None and self.prng.random() > slow:
                    continue  # a job on a slow machine: most polls see no progress
                n = self.prng.choice([0, 1, 1, 1, 2, burst]) if burst > 1 else self.prng.choice([0, 1, 1])
                proc.advance(n)

        def fetch_status_results(self, trial_ids):
            self.advance_workers(trial_ids)
            return super().fetch_status_results(trial_ids)

        def stdout(self, trial_id):
            lines = super().stdout(trial_id)
            # ... and right after its log was read
            proc = self.procs.get(trial_id)
            if proc is not None and self.plan.get("progress_inside_poll") and self.plan.get("burst", 3) > 1 \
                    and not proc.killed and proc.returncode is None and self.prng.random() < 0.25:
                proc.advance(self.prng.choice([1, 1, 2, 5]))
            return lines

        def busy_trial_ids(self):
            # workers also make progress between the poll and this query (Tuner asks it when
            # start_jobs_without_delay=False): a job may write its last reports and exit in between
            if self.plan.get("progress_at_busy_query", True) and self.plan.get("burst", 3) > 1:
                self.advance_workers()
            return super().busy_trial_ids()

        def alive_unkilled(self):
            return [(p.trial_id, p.run_no) for p in self.all_procs if p.returncode is None and not p.killed]

    return FakeProcBackend


class ProcRun:
    """One Tuner.run on the scripted-process backend. ``p``: kind (scheduler kind or 'scripted'),
    mode, n_workers, max_t, use_mra, checkpointing, delete_checkpoints, plan{...}, stop{...},
    max_failures, sjwd, async, wait, space(desc)."""

    def __init__(self, p, seed, scheduler=None, extra_callbacks=(), sched_extra=None, value_fn=None, extra_fn=None):
        from syne_tune import StoppingCriterion, Tuner
        from syne_tune.results_callback import StoreResultsCallback

        from stv import gen

        self.p = p
        rng = random.Random(seed)
        self.max_t = p["max_t"]
        space = gen.build_space(p["space"])
        mra = "epochs" if p.get("use_mra") else None
        if mra:
            space = dict(space, epochs=self.max_t)
        self.space = space
        self.scheduler = scheduler if scheduler is not None else build_scheduler(
            p["kind"], space, self.max_t, p["mode"], seed % (2**31), rng, mra=mra, extra=sched_extra)
        self.rec = Recorder()
        self.curves = value_fn or gen.Curves(p.get("curves", "continuous"), seed + 1, self.max_t)
        cls = fake_proc_backend_class()
        self.backend = cls(plan=dict(p.get("plan") or {}, seed=seed + 5), value_fn=self.curves, max_t=self.max_t,
                           max_resource_attr=mra, checkpointing=p.get("checkpointing", True),
                           delete_checkpoints=p.get("delete_checkpoints", False), recorder=self.rec, extra_fn=extra_fn)
        self.rec.wrap_scheduler(self.scheduler)
        self.rec.wrap_backend(self.backend)
        self.store_cb = StoreResultsCallback()
        self.tuner = Tuner(
            trial_backend=self.backend, scheduler=self.scheduler, stop_criterion=StoppingCriterion(**p["stop"]),
            n_workers=p["n_workers"], sleep_time=0, callbacks=[self.store_cb, self.rec.callback()] + list(extra_callbacks),
            tuner_name=f"stvp-{os.getpid()}-{seed % 100000}", suffix_tuner_name=True, save_tuner=False,
            start_jobs_without_delay=p.get("sjwd", True), asynchronous_scheduling=p.get("async", True),
            wait_trial_completion_when_stopping=p.get("wait", False), max_failures=p.get("max_failures", 100),
            results_update_interval=p.get("results_update_interval", 1e9), print_update_interval=1e9,
        )
        self.exc = None

    def run(self, max_loops=4000):
        import contextlib
        import io

        # bounded progress: a logical bound on loop iterations, not wall clock
        from syne_tune.tuner_callback import TunerCallback

        run = self

        class Bound(TunerCallback):
            def __init__(self):
                self.n = 0

            def on_loop_start(self):
                self.n += 1
                if self.n > max_loops:
                    raise LoopBoundExceeded(f"more than {max_loops} tuner loop iterations")

        self.bound = Bound()
        self.tuner.callbacks.append(self.bound)
        buf = io.StringIO()
        try:
            with contextlib.redirect_stdout(buf):
                self.tuner.run()
        except BaseException as e:  # noqa: BLE001
            if (isinstance(e, (KeyboardInterrupt, SystemExit)) and not type(e).__name__.startswith("Injected")) or type(e).__name__ == "CaseTimeout":
                raise
            self.exc = e
        return self

    def cleanup(self):
        import shutil

        shutil.rmtree(str(self.tuner.tuner_path), ignore_errors=True)


class LoopBoundExceeded(Exception):
    pass
