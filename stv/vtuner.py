"""Virtual tuner (DESIGN §3.2): implements the *protocol* of ``Tuner`` against a scheduler with an
explicit set of up to ``n_workers`` running trials, so that the arrival order of reports from
concurrent trials, the position of ``suggest`` calls and the failure points are chosen by the
harness. No backend, no clock.

Protocol followed (same as Tuner._schedule_new_task / _update_running_trials):
  suggest(trial_id=next id) -> start: new Trial + on_trial_add ; resume: paused trial continues
  (config replaced when the suggestion carries one); every report -> on_trial_result ->
  STOP/PAUSE => on_trial_remove and the trial leaves the running set; after its last report was
  answered CONTINUE the trial completes -> on_trial_complete(last result); failure -> on_trial_error.
  A trial started/resumed with config[max_resource_attr] = m reports levels up to m only; a
  resumed trial continues at paused_level+1 (checkpointing) or restarts at 1 (no checkpointing).
"""
import datetime
import random

_T0 = datetime.datetime(2024, 1, 1)


class SchedRaised(Exception):
    def __init__(self, api, exc):
        super().__init__(f"{api}: {exc!r}")
        self.api = api
        self.exc = exc


class VTrial:
    __slots__ = (
        "trial_id", "config", "status", "next_level", "run_max", "last_result", "run_no",
        "reports", "trial", "last_level", "reports_in_run", "source", "run_start_level", "stride",
    )

    def __init__(self, trial_id, config, trial):
        self.trial_id = trial_id
        self.config = config
        self.trial = trial
        self.status = "running"
        self.next_level = 1
        self.run_max = None
        self.last_result = None
        self.last_level = 0
        self.run_no = 0
        self.reports_in_run = 0
        self.reports = []  # (run_no, level, value, decision)
        self.source = None  # checkpoint_trial_id for warm-started trials
        self.run_start_level = 1
        self.stride = 1  # reports every ``stride``-th resource level (sparse reporters skip levels)


def make_trial(trial_id, config):
    from syne_tune.backend.trial_status import Trial

    return Trial(trial_id=trial_id, config=config, creation_time=_T0)


class StepBudgetExceeded(Exception):
    """An API call of the code under test executed more interpreted lines than the budget: a
    *logical* bound (deterministic, independent of machine load) standing in for 'never blocks'."""


def call_with_step_budget(fn, budget, *a, **k):
    import sys

    n = [0]

    def tracer(frame, event, arg):
        if event == "line":
            n[0] += 1
            if n[0] > budget:
                raise StepBudgetExceeded(f"more than {budget} interpreted lines in one call")
        return tracer

    old = sys.gettrace()
    sys.settrace(tracer)
    try:
        return fn(*a, **k)
    finally:
        sys.settrace(old)


class Port:
    """Single scheduler port: forwards calls, converts exceptions into SchedRaised."""

    def __init__(self, scheduler, step_budget=None):
        self.scheduler = scheduler
        self.step_budget = step_budget

    def _call(self, api, *a, **k):
        try:
            fn = getattr(self.scheduler, api)
            if self.step_budget:
                return call_with_step_budget(fn, self.step_budget, *a, **k)
            return fn(*a, **k)
        except Exception as e:  # noqa: BLE001 - any raise out of the scheduler API is an observation
            raise SchedRaised(api, e) from e

    def suggest(self, trial_id):
        return self._call("suggest", trial_id=trial_id)

    def on_trial_add(self, trial):
        return self._call("on_trial_add", trial=trial)

    def on_trial_result(self, trial, result):
        return self._call("on_trial_result", trial=trial, result=result)

    def on_trial_remove(self, trial):
        return self._call("on_trial_remove", trial=trial)

    def on_trial_complete(self, trial, result):
        return self._call("on_trial_complete", trial=trial, result=result)

    def on_trial_error(self, trial):
        return self._call("on_trial_error", trial=trial)


class VTuner:
    """
    :param port: object with the scheduler API (``Port`` or a twin port)
    :param p: dict of parameters:
        n_workers, max_t, metric, resource_attr, max_resource_attr (or None), checkpointing (bool),
        policy in {uniform, round_robin, starve, burst, eager}, seed, max_trials, max_events,
        fail: {trial_id(str): [run_no, reports_before_failure]}  (explicit failure plan)
        order: optional explicit list of actions to replay ("s" or trial id ints)
    :param value_fn: (trial_id, level, config) -> metric value (or dict of metric values)
    :param extra_fn: (trial_id, level, run_no, start_level) -> dict of extra result fields
    """

    def __init__(self, port, p, value_fn, extra_fn=None, monitors=()):
        self.port = port
        self.p = p
        self.value_fn = value_fn
        self.extra_fn = extra_fn
        self.monitors = list(monitors)
        self.rng = random.Random(p.get("seed", 0))
        self.trials = {}
        self.running = []  # trial ids, in start order
        self.exhausted = False
        self.events = []
        self.n_events = 0
        self.raised = None
        self.fail = {int(k): tuple(v) for k, v in (p.get("fail") or {}).items()}
        self._rr = 0
        self._burst = None
        self._starved = None
        self.order = list(p["order"]) if p.get("order") else None
        self.num_suggest_calls = 0
        self.stop = False  # monitors may end the run (e.g. after a violation that derails the protocol)
        # other experiments living in the same process (own scheduler, own trials), stepped in between this one's events:
        # one experiment's bookkeeping is none of the other's business
        self.bystanders = []

    # ------------------------------------------------------------------ helpers
    def _notify(self, name, *args):
        for m in self.monitors:
            f = getattr(m, name, None)
            if f is not None:
                f(self, *args)

    def _run_max(self, config):
        mra = self.p.get("max_resource_attr")
        if mra is not None and config is not None and mra in config:
            return min(int(config[mra]), self.p["max_t"])
        return self.p["max_t"]

    # ------------------------------------------------------------------ actions
    def do_suggest(self):
        next_id = len(self.trials)
        self.num_suggest_calls += 1
        self._notify("pre_suggest", next_id)
        sugg = self.port.suggest(next_id)
        if sugg is None:
            # a real Tuner stops asking after the first None; with ``suggest_after_none`` = k the experiment is continued and the
            # scheduler asked again up to k more times (someone driving the scheduler API directly)
            self.none_seen = getattr(self, "none_seen", 0) + 1
            if self.none_seen > self.p.get("suggest_after_none", 0):
                self.exhausted = True
            self.events.append(("suggest", next_id, None, None))
            self._notify("post_suggest", next_id, None, None)
            return None
        if sugg.spawn_new_trial_id:
            config = dict(sugg.config)
            trial = make_trial(next_id, config)
            vt = VTrial(next_id, config, trial)
            vt.source = sugg.checkpoint_trial_id
            vt.run_max = self._run_max(config)
            if vt.source is not None and self.p.get("checkpointing", True):
                # warm start (PBT): continues after the level the source reached
                src = self.trials.get(vt.source)
                vt.next_level = (src.last_level if src is not None else 0) + 1
                if self.p.get("pbt_restart_levels", True):
                    vt.next_level = 1
            strides = self.p.get("strides")
            if strides:
                vt.stride = int(strides[next_id % len(strides)])
                if vt.stride > 1 and self.p.get("stride_first_level_offset", True):
                    # e.g. validation every 2nd epoch: 2, 4, 6, ... (but every script reports at least once)
                    vt.next_level = min(vt.next_level + vt.stride - 1, vt.run_max)
            vt.run_start_level = vt.next_level
            self.trials[next_id] = vt
            self.running.append(next_id)
            self.port.on_trial_add(trial)
            self.events.append(("suggest", next_id, "start", next_id))
        else:
            tid = sugg.checkpoint_trial_id
            vt = self.trials.get(tid)
            self.events.append(("suggest", next_id, "resume", tid))
            if vt is None or vt.status != "paused":
                # protocol violation by the scheduler; reported to monitors, run cannot go on
                self._notify("post_suggest", next_id, sugg, None)
                self.raised = ("suggest", "resume_of_non_paused", tid, None if vt is None else vt.status)
                return sugg
            if sugg.config is not None:
                vt.config = dict(sugg.config)
                vt.trial = make_trial(tid, vt.config)
            vt.status = "running"
            vt.run_no += 1
            vt.reports_in_run = 0
            vt.run_max = self._run_max(vt.config)
            vt.next_level = vt.last_level + 1 if self.p.get("checkpointing", True) else 1
            if vt.stride > 1 and self.p.get("stride_first_level_offset", True):
                vt.next_level = min(vt.next_level + vt.stride - 1, vt.run_max)  # the script keeps validating every k-th epoch
            vt.run_start_level = vt.next_level
            self.running.append(tid)
        self._notify("post_suggest", next_id, sugg, vt)
        return sugg

    def make_result(self, vt, level):
        v = self.value_fn(vt.trial_id, level, vt.config)
        res = dict(v) if isinstance(v, dict) else {self.p["metric"]: v}
        res[self.p["resource_attr"]] = level
        if self.extra_fn is not None:
            res.update(self.extra_fn(vt.trial_id, level, vt.run_no, vt))
        return res

    def do_advance(self, tid):
        vt = self.trials[tid]
        assert vt.status == "running"
        plan = self.fail.get(tid)
        if plan is not None and plan[0] == vt.run_no and vt.reports_in_run >= plan[1]:
            vt.status = "failed"
            self.running.remove(tid)
            self.events.append(("error", tid, vt.run_no, vt.last_level))
            self._notify("pre_error", vt)
            self.port.on_trial_error(vt.trial)
            self._notify("post_error", vt)
            return
        overshoot = (self.p.get("overshoot") and vt.stride > 1 and (vt.last_level or 0) < vt.run_max)
        if vt.next_level > vt.run_max and not overshoot:
            # all levels reported and the last one was answered CONTINUE: completes
            vt.status = "completed"
            self.running.remove(tid)
            self.events.append(("complete", tid, vt.run_no, vt.last_level))
            self._notify("pre_complete", vt)
            self.port.on_trial_complete(vt.trial, dict(vt.last_result))
            self._notify("post_complete", vt)
            return
        level = vt.next_level
        result = self.make_result(vt, level)
        self._notify("pre_result", vt, result)
        decision = self.port.on_trial_result(vt.trial, dict(result))
        vt.last_result = result
        vt.last_level = level
        vt.next_level = level + vt.stride
        vt.reports_in_run += 1
        vt.reports.append((vt.run_no, level, result.get(self.p["metric"]), decision))
        self.events.append(("result", tid, vt.run_no, level, decision))
        if decision in ("STOP", "PAUSE"):
            self.port.on_trial_remove(vt.trial)
            vt.status = "stopped" if decision == "STOP" else "paused"
            self.running.remove(tid)
        self._notify("post_result", vt, result, decision)

    # ------------------------------------------------------------------ policy
    def _can_suggest(self):
        return (
            not self.exhausted
            and len(self.running) < self.p["n_workers"]
            and self.num_suggest_calls < self.p.get("max_suggest", 10**9)
            and (
                len(self.trials) < self.p.get("max_trials", 10**9)
                or any(t.status == "paused" for t in self.trials.values())
            )
        )

    def choose(self):
        if self.order is not None:
            if not self.order:
                return None
            a = self.order.pop(0)
            return ("suggest",) if a == "s" else ("advance", int(a))
        cs = self._can_suggest()
        run = self.running
        if not cs and not run:
            return None
        pol = self.p.get("policy", "uniform")
        rng = self.rng
        if pol == "eager":
            if cs:
                return ("suggest",)
            return ("advance", rng.choice(run))
        if pol == "round_robin":
            if cs and (not run or rng.random() < 0.5):
                return ("suggest",)
            self._rr += 1
            return ("advance", run[self._rr % len(run)])
        if pol == "starve":
            if self._starved not in run:
                self._starved = run[0] if run else None
            others = [t for t in run if t != self._starved]
            if cs and (not others or rng.random() < 0.4):
                return ("suggest",)
            if others and rng.random() < 0.97:
                return ("advance", rng.choice(others))
            return ("advance", self._starved) if self._starved is not None else ("suggest",)
        if pol == "burst":
            if self._burst in run and rng.random() < 0.8:
                return ("advance", self._burst)
            if cs and (not run or rng.random() < 0.35):
                return ("suggest",)
            self._burst = rng.choice(run)
            return ("advance", self._burst)
        # uniform
        n = len(run) + (1 if cs else 0)
        k = rng.randrange(n)
        if cs and k == len(run):
            return ("suggest",)
        return ("advance", run[k])

    def step(self):
        a = self.choose()
        if a is None:
            return False
        try:
            if a[0] == "suggest":
                self.do_suggest()
            else:
                if a[1] not in self.running:
                    return True  # replayed order refers to a trial that is not running: skip
                self.do_advance(a[1])
        except SchedRaised as e:
            self.raised = (e.api, type(e.exc).__name__, repr(e.exc)[:300], a)
            return False
        self.n_events += 1
        return self.raised is None and not self.stop

    def run(self):
        max_events = self.p.get("max_events", 200)
        while self.n_events < max_events and self.step():
            for b in self.bystanders:
                if b.n_events < b.p.get("max_events", 200) and b.raised is None:
                    b.step()
        return self
