"""Shard worker (forked from the runner after the code under test has been imported once).

Runs each case of the shard under a per-case SIGALRM watchdog and appends one JSON line per
case. A watchdog firing or an exception escaping the property module is *inconclusive*
(harness_error / watchdog), never a violation and never 'held'.
"""
import json
import os
import signal
import sys
import time
import traceback


class CaseTimeout(BaseException):
    pass


def _alarm(signum, frame):
    raise CaseTimeout()


def run_shard(mod, shard_cases, out_path, case_timeout):
    signal.signal(signal.SIGALRM, _alarm)
    if hasattr(mod, "worker_init"):
        mod.worker_init()
    with open(out_path, "a") as out:
        for idx, spec in shard_cases:
            t0 = time.time()
            rec = {"idx": idx}
            try:
                ct = mod.case_timeout(spec) if hasattr(mod, "case_timeout") else case_timeout
                try:
                    signal.alarm(ct)
                    try:
                        res = mod.run_case(spec)
                    finally:
                        signal.alarm(0)
                except CaseTimeout:
                    # Wall clock is never a verdict. If the module supports it, the case is re-run
                    # under a *logical* step budget (interpreted lines per API call of the code under
                    # test); only that deterministic budget can turn a hang into a violation.
                    budget = getattr(mod, "STEP_BUDGET_RERUN", None)
                    if not budget:
                        raise
                    spec2 = dict(spec)
                    spec2["_stepbudget"] = budget
                    signal.alarm(ct * 6 + 60)
                    try:
                        res = mod.run_case(spec2)
                    finally:
                        signal.alarm(0)
                    res.setdefault("counters", {})["watchdog_rerun_with_step_budget"] = 1
                rec.update(res)
            except CaseTimeout:
                rec.update(
                    {
                        "violations": [],
                        "counters": {"inconclusive:watchdog": 1},
                        "inconclusive": ["watchdog"],
                        "sig": None,
                        "nontrivial": False,
                        "sample": None,
                        "watchdog": True,
                    }
                )
            except Exception:
                rec.update(
                    {
                        "violations": [],
                        "counters": {"inconclusive:harness_error": 1},
                        "inconclusive": ["harness_error"],
                        "sig": None,
                        "nontrivial": False,
                        "sample": None,
                        "harness_error": traceback.format_exc()[-3000:],
                    }
                )
            rec["wall"] = round(time.time() - t0, 4)
            out.write(json.dumps(rec, default=repr) + "\n")
            out.flush()


def fork_shard(mod, shard_cases, out_path, case_timeout):
    """Fork a child that runs the shard; returns its pid."""
    sys.stdout.flush()
    sys.stderr.flush()
    pid = os.fork()
    if pid:
        return pid
    code = 0
    try:
        # the child gets its own scratch directory
        from stv import envshim

        envshim._scratch = None
        sd = envshim.scratch_dir()
        try:
            run_shard(mod, shard_cases, out_path, case_timeout)
        finally:
            import shutil

            shutil.rmtree(sd, ignore_errors=True)
    except BaseException:
        traceback.print_exc()
        code = 3
    finally:
        sys.stdout.flush()
        sys.stderr.flush()
        os._exit(code)
