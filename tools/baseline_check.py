#!/venv/bin/python
"""Runs the repository's pinned test suite (hooks off: there are none) and compares with BASELINE.json."""
import json, subprocess, sys, tempfile, os, xml.etree.ElementTree as ET
base = json.load(open("/root/.vp/BASELINE.json"))
out = tempfile.mktemp(suffix=".xml")
cmd = base["cmd"].replace("<file>", out)
subprocess.run(cmd, shell=True, stdout=subprocess.DEVNULL, stderr=subprocess.DEVNULL)
passed = set()
for tc in ET.parse(out).getroot().iter("testcase"):
    if not any(ch.tag in ("failure", "error", "skipped") for ch in tc):
        passed.add(f"{tc.get('classname')}::{tc.get('name')}")
os.unlink(out)
want = set(base["stable_pass"])
missing = sorted(want - passed)
print(f"baseline stable_pass={len(want)} now_passing={len(passed)} missing={len(missing)}")
for m in missing[:40]:
    print("  MISSING", m)
sys.exit(1 if missing else 0)
