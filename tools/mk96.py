#!/venv/bin/python
"""Regenerate the table of DESIGN.md §9.6 from seeded/*/meta.json (tools/seedtable.py); the prose around it is kept."""
import subprocess

p = "/verif/DESIGN.md"
s = open(p).read()
a = s.index("| seeded change | what it does |")
b = s.index("What the misses had in common")
table = subprocess.check_output(["/verif/tools/seedtable.py"], text=True)
open(p, "w").write(s[:a] + table + "\n" + s[b:])
print(table.count("\n| C"), "rows")
