#!/venv/bin/python
"""Regenerates MANIFEST.json from the table below and the property modules that exist."""
import json
import os

VERIF = os.path.dirname(os.path.dirname(os.path.abspath(__file__)))

T = {
    "C01": ("offline trace automaton over the recorded history of real Tuner.run executions (simulator + scripted-process backends) with injected failures, external stops and ground-truth job-end events (bounded-progress rule)",
            "Held on the explored runs: worker occupancy, id sequence, per-trial life-cycle automaton and notification conservation are decided by an offline checker over the event log recorded at the public scheduler/backend/callback boundaries, across the scheduler matrix, delay settings and injected failures.", "§4 C01"),
    "C02": ("exactly-once / prefix / no-delivery-after-decision checker over uniquely identified emissions vs deliveries (scripted-process LocalBackend, simulator, and a direct driver of the generic poll logic over a backend whose jobs stop asynchronously)",
            "Held on the explored poll plans and simulator runs: every emission carries a unique id, so the delivered sequence of every run is checked to be a gap-free ordered prefix with nothing emitted after a stop/pause decision.", "§4 C02"),
    "C03": ("lock-step reference-model monitor (numpy.quantile stopping rule) on harness-driven report schedules incl. sparse reporters, and on decisions recorded inside real Tuner runs (engine R); icontract invariants on Rung",
            "Held on the explored schedules: each decision of the real scheduler is compared with an independent reference stopping-rung model fed the same events, with an explicit round-off band.", "§4 C03"),
    "C04": ("lock-step reference-model monitor (promotion rule, PASHA cap, cost threshold) on harness-driven suggest/report interleavings, some with a second experiment stepped in the same process",
            "Held on the explored schedules: every suggestion (resume vs start, resource target) and decision is compared with an independent reference promotion model.", "§4 C04"),
    "C05": ("exhaustive small-scope walk of the real bracket manager with a lock-step reference model, plus randomised scheduler-level schedules with failures, infinite metric values, finite spaces and caller-side reuse of the rung lists",
            "Engine A enumerates all operation sequences of the real SynchronousHyperbandBracketManager within the stated bounds against a reference; engine B drives the scheduler API under random interleavings and failure subsets.", "§4 C05"),
    "C06": ("membership/type/initial-points/no-repeat/exhaustion oracle over suggestions from generated histories",
            "Held on the explored spaces and histories: every suggestion is checked for keys, constants, types, membership, initial-point order, repeats and exhaustion.", "§4 C06"),
    "C07": ("membership and round-trip oracle on generated domains, seeds and unit-cube points incl. corners and bin borders",
            "Held on the explored domains: samples, casts, decodings and encode/decode/JSON round trips of generated domains are checked against the domain's own definition.", "§4 C07"),
    "C08": ("reference-model monitor: dense numpy (and mpmath-calibrated) GP vs the real posterior state on generated data; direct probes of the jitter search on near-singular matrices",
            "Held on the explored data sets and parameters: predictions, likelihood, joint-sample covariance, jitter and incremental updates are compared with dense textbook formulas under a conditioning-scaled tolerance.", "§4 C08"),
    "C09": ("Richardson-extrapolated finite differences and closed forms vs the real gradients (incl. near-singular states that take the jitter loop, predictors kept across a re-fit); contract monitor on every AddJitterOp call",
            "Held on the explored points: gradients of the fitting criterion and of the acquisition functions are compared with extrapolated central differences (with their own error estimate); EI with its closed form.", "§4 C09"),
    "C10": ("table/time oracle recomputing every delivered result of real simulated Tuner runs; scripted wall clock under the time keeper (outside time charged exactly once); every clock advance recorded",
            "Held on the explored simulated runs: metric values, level sequences, per-trial seed and simulated time stamps are recomputed from the table and the observed start/resume events.", "§4 C10"),
    "C11": ("lock-step twins with perturbed global RNGs and decoys; fresh-process twins under different hash seeds",
            "Held on the explored histories: twin traces are compared step by step in process and as digests across fresh processes.", "§4 C11"),
    "C12": ("stop-criterion monitor at every loop end, budget overshoot bound, post-run backend state inspection, injected exceptions, run() re-entered with the criterion holding",
            "Held on the explored runs: no iteration/start after the criterion holds, count budgets overshoot by at most n_workers, nothing left running after run() returns normally or by injected exception.", "§4 C12"),
    "C13": ("fault-injection at enumerated failure placements with reference-model and bookkeeping oracles (engine A) plus real Tuner runs with failing and externally stopped jobs decided by the C01 trace automaton (engine B)",
            "Held on the explored fault sequences: failures at enumerated points for every scheduler; no raise, failed never resumed/re-suggested, other trials' bookkeeping intact, synchronous rungs complete.", "§4 C13"),
    "C14": ("state invariant checked after every event against what the trials actually reported",
            "Held on the explored schedules: the surrogate data set and pending evaluations are compared after every event with the reports and the running set.", "§4 C14"),
    "C15": ("paired lock-step executions (min on f vs max on -f) with round-off-band exclusion (incl. model-free ZeroShotTransfer over mirrored offline tables)",
            "Held on the explored pairs: suggestions, decisions and best-configuration reporting coincide between mode min on f and mode max on -f.", "§4 C15"),
    "C16": ("continuation-equality monitor at every prefix of generated histories (dill and get_state/clone_from_state)",
            "Held on the explored histories and snapshot points: the restored object continues identically to the uninterrupted one.", "§4 C16"),
    "C17": ("row-vs-delivery and statistics oracle over real runs (incl. experiments continued at another path) and direct TuningStatus histories, CSV read back",
            "Held on the explored runs: result rows equal deliveries one-to-one, CSV read-back equals the table, best configuration and running statistics equal recomputed values.", "§4 C17"),
    "C18": ("round-trip oracle: real Reporter writing to a real file with interleaved hostile output, parsed by the real retrieve; plus real LocalBackend worker processes paused and resumed (delivered and parsed reports vs reported)",
            "Held on the explored scripts: retrieved reports equal the reported dictionaries in order; counters and time stamps monotone; rejected reports raise and leave the stream intact.", "§4 C18"),
    "C19": ("brute-force Pareto oracle and MOASHA reference rule on generated point sets and schedules",
            "Held on the explored point sets and schedules: pareto_efficient and nondominated_sort vs brute force; MOASHA decisions vs the documented rank rule computed from the recorded priorities.", "§4 C19"),
    "C20": ("checkpoint life-cycle monitor over real Tuner runs on a scripted-process backend with real checkpoint directories (NaN-reporting trials, stragglers, jobs stopped from outside, PBT pending-clone probe)",
            "Held on the explored runs: at every resume/copy the checkpoint exists; deletions happen only in states the property allows.", "§4 C20"),
}

NOTE = ("Runtime monitoring: speaks only about the executions generated (seeded workloads, bounds in evidence.coverage and DESIGN.md); "
        "trusted base: the harness (stv/), CPython, numpy/scipy/autograd/pandas as installed, the environment shims of DESIGN §2.2.")


def main():
    checks = []
    na = []
    ready = set(open(os.path.join(VERIF, "tools", "ready.txt")).read().split())
    for pid in sorted(T):
        tech, text, ref = T[pid]
        if pid in ready and os.path.exists(os.path.join(VERIF, "stv", "props", pid.lower() + ".py")):
            checks.append({
                "property_id": pid,
                "quick_cmd": f"./check {pid} --tier quick",
                "thorough_cmd": f"./check {pid} --tier thorough",
                "evidence_file": f"evidence/{pid}.json",
                "replay_cmd_template": f"./check {pid} --replay {{path}}",
                "engine": "stv",
                "level_claimed": {"category": "exploration", "text": text, "design_ref": "DESIGN.md " + ref},
                "level_note": NOTE,
                "technique": "runtime monitoring: " + tech,
            })
        else:
            na.append({"property_id": pid, "reason": "check not built yet in this round (planned, see DESIGN.md " + ref + "); not claimed until its monitor exists and is silent on the unchanged tree"})
    m = {
        "version": 1,
        "setup_cmd": "./setup.sh",
        "hooks": {
            "guard": "SYNE_TUNE_VERIF",
            "enable": "no hooks in /repo: all observation is by wrapping public methods of instances, harness subclasses, contracts applied from outside and sys.monitoring; checks import /repo's working tree directly",
            "baseline_off_cmd": "cd /repo && /venv/bin/python -m pytest -ra -q -p no:cacheprovider --timeout=900 --continue-on-collection-errors",
            "source_commits": [],
            "add_only": True,
        },
        "engines": [{
            "name": "stv",
            "path": "stv/",
            "serves_properties": [c["property_id"] for c in checks],
            "kind_free_text": "runtime-monitoring harness: seeded workload generators, virtual tuner, scripted-process backend, reference models, trace checkers; forks one worker per core",
        }],
        "checks": checks,
        "not_applicable": na,
        "notes": "Every check: exit 0 held / exit 1 VIOLATION / exit 2 INCONCLUSIVE (floors of deciding events not met). Known findings: known_findings.json.",
    }
    with open(os.path.join(VERIF, "MANIFEST.json"), "w") as f:
        json.dump(m, f, indent=1)
    print("checks:", [c["property_id"] for c in checks], "not claimed:", [n["property_id"] for n in na])


if __name__ == "__main__":
    main()
