#!/bin/sh
# tools/mut.sh <PROP> <file-relative-to-repo> <python-expr old> <python-expr new> [check args...]
# Applies a textual mutation in a scratch worktree (outside /repo and /verif), runs the check
# against it through STV_REPO, prints the verdict line, removes the worktree.
PROP="$1"; FILE="$2"; OLD="$3"; NEW="$4"; shift 4
WT="/tmp/wt_mut_$$"
git -C /repo worktree add -q --detach "$WT" HEAD || exit 9
/venv/bin/python - "$WT/$FILE" "$OLD" "$NEW" <<'PY'
import sys
p, old, new = sys.argv[1:4]
s = open(p).read()
if s.count(old) < 1:
    print("MUTATION TARGET NOT FOUND"); sys.exit(7)
s = s.replace(old, new, 1)
open(p, "w").write(s)
PY
rc=$?
if [ $rc -eq 0 ]; then
  STV_REPO="$WT" /verif/check "$PROP" --no-evidence "$@" > "$WT.log" 2>&1
  rc=$?
  echo "exit=$rc :: $(grep -c '^VIOLATION' "$WT.log") violation lines :: $(grep -m1 'mechanism=' "$WT.log" | cut -c1-200)"
  tail -1 "$WT.log" | cut -c1-200
fi
rm -f "$WT.log"
git -C /repo worktree remove --force "$WT"
exit $rc
