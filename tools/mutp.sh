#!/bin/sh
# tools/mutp.sh <PROP> <patch.diff | python-script.py> [check args...]
# Applies a patch (git apply) or runs a python mutation script (cwd = worktree) in a scratch
# worktree, runs the check against it via STV_REPO, removes the worktree.
PROP="$1"; PATCH="$2"; shift 2
WT="/tmp/wt_mutp_$$"
git -C /repo worktree add -q --detach "$WT" HEAD || exit 9
case "$PATCH" in
  *.py) (cd "$WT" && /venv/bin/python "$PATCH") ;;
  *) git -C "$WT" apply "$PATCH" ;;
esac
rc=$?
if [ $rc -eq 0 ]; then
  STV_REPO="$WT" /verif/check "$PROP" --no-evidence "$@" > "$WT.log" 2>&1
  rc=$?
  echo "exit=$rc :: $(grep -c '^VIOLATION' "$WT.log") violation lines :: $(grep -m1 'mechanism=' "$WT.log" | cut -c1-220)"
  tail -1 "$WT.log" | cut -c1-200
else
  echo "PATCH FAILED"
fi
rm -f "$WT.log"
git -C /repo worktree remove --force "$WT"
exit $rc
