#!/bin/sh
# tools/runall.sh [tier] : run every claimed check, print one summary line each
cd "$(dirname "$0")/.."
TIER="${1:-quick}"
for P in $(cat tools/ready.txt); do
  OUT=$(./check $P --tier $TIER 2>&1); RC=$?
  echo "$P exit=$RC $(echo "$OUT" | grep -E "^$P tier" | cut -c1-170) $(echo "$OUT" | grep -c '^VIOLATION') viol $(echo "$OUT" | grep -E '^INCONCLUSIVE' | cut -c1-200)"
done
