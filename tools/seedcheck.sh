#!/bin/sh
# tools/seedcheck.sh <PROP> <k> [checks...]
# Verifies a seeded change /tmp/seed/<PROP>.out/patch<k>.diff in a scratch worktree:
#  demo exit codes on changed / unchanged tree, repository test-suite vs BASELINE, and the verdict of the given checks
#  (default: the property's own check, quick tier) through STV_REPO. Prints one summary line.
P="$1"; K="$2"; shift 2
CHECKS="${*:-$P}"
OUT=${SEEDBASE:-/tmp/seed}/$P.out
WT=/tmp/sv_${SEEDTAG:-a}_${P}_$K
[ -f $OUT/patch$K.diff ] || { echo "$P/$K: no patch"; exit 0; }
git -C /repo worktree add -q --detach $WT HEAD || exit 9
if ! git -C $WT apply $OUT/patch$K.diff 2>$WT.err; then echo "$P/$K: PATCH DOES NOT APPLY: $(head -2 $WT.err)"; git -C /repo worktree remove --force $WT; exit 0; fi
D=$OUT/demo$K.py
PYTHONPATH=$WT timeout 600 /venv/bin/python $D >$WT.demo1 2>&1; C1=$?
PYTHONPATH=/repo timeout 600 /venv/bin/python $D >$WT.demo0 2>&1; C0=$?
if [ -z "$SKIP_SUITE" ]; then
  J=$WT.junit.xml
  (cd $WT && /venv/bin/python -m pytest -q -p no:cacheprovider --timeout=900 --continue-on-collection-errors --junitxml=$J >/dev/null 2>&1)
  SUITE=$(/venv/bin/python - $J $WT <<'PY'
import json,subprocess,sys,xml.etree.ElementTree as ET
base=json.load(open("/root/.vp/BASELINE.json")); want=set(base["stable_pass"])
def passed_in(j):
    passed=set()
    for tc in ET.parse(j).getroot().iter("testcase"):
        if not any(ch.tag in ("failure","error","skipped") for ch in tc): passed.add(f"{tc.get('classname')}::{tc.get('name')}")
    return passed
passed=passed_in(sys.argv[1])
miss=sorted(want-passed)
for attempt in range(3):
    if not (0 < len(miss) <= 20): break
    # load-dependent flakes (10 s per-test timeouts, numerical tests on a busy machine): run the missing tests again, alone
    names=sorted({m.split("::")[-1].split("[")[0] for m in miss})
    j2=sys.argv[1]+".2"
    subprocess.run(["/venv/bin/python","-m","pytest","-q","-p","no:cacheprovider","--timeout=900","--continue-on-collection-errors",
                    "-k"," or ".join(names),"--junitxml="+j2],cwd=sys.argv[2],stdout=subprocess.DEVNULL,stderr=subprocess.DEVNULL)
    try: passed|=passed_in(j2)
    except Exception: pass
    miss=sorted(want-passed)
if miss:
    # still missing: does the same test fail on the unchanged tree right now (machine load, not the change)?
    names=sorted({m.split("::")[-1].split("[")[0] for m in miss})
    j3=sys.argv[1]+".3"
    subprocess.run(["/venv/bin/python","-m","pytest","-q","-p","no:cacheprovider","--timeout=900","--continue-on-collection-errors",
                    "-k"," or ".join(names),"--junitxml="+j3],cwd="/repo",stdout=subprocess.DEVNULL,stderr=subprocess.DEVNULL)
    try:
        base_pass=passed_in(j3)
        flaky=[m for m in miss if m not in base_pass]
        miss=[m for m in miss if m in base_pass]
        if flaky: print("load_flaky_on_unchanged_tree_too="+",".join(sorted({f.split("::")[-1] for f in flaky})), end=" ")
    except Exception: pass
print(f"suite_missing={len(miss)}" + ("" if not miss else ":"+",".join(m.split('::')[-1] for m in miss[:4])))
PY
)
else SUITE="suite=skipped"; fi
RES=""
for C in $CHECKS; do
  STV_REPO=$WT /verif/check $C --no-evidence > $WT.chk 2>&1; RC=$?
  M=$(grep -m1 'mechanism=' $WT.chk | sed 's/ clause=.*//' | cut -c1-110)
  RES="$RES $C:exit=$RC[$M]"
done
echo "$P/$K: demo_changed=$C1 demo_unchanged=$C0 $SUITE checks:$RES"
rm -f $WT.err $WT.demo1 $WT.demo0 $WT.junit.xml $WT.junit.xml.2 $WT.junit.xml.3 $WT.chk
git -C /repo worktree remove --force $WT
