#!/venv/bin/python
"""tools/seedrecheck.py <PROP-idx> [checks...]

Re-runs the given checks (default: the property's own, quick tier) against an already stored and confirmed seeded change
(/verif/seeded/<PROP-idx>/patch.diff applied to a fresh scratch worktree of /repo HEAD) after a check was strengthened, and
updates checks_quick / caught_by in its meta.json. The demonstration and the repository test-suite are not re-run
(they were confirmed when the change was stored)."""
import json
import os
import re
import subprocess
import sys

sid = sys.argv[1]
prop = sid.split("-")[0]
checks = sys.argv[2:] or [prop]
d = f"/verif/seeded/{sid}"
wt = f"/tmp/rc_{sid}"
subprocess.run(["git", "-C", "/repo", "worktree", "add", "-q", "--detach", wt, "HEAD"], check=True)
try:
    subprocess.run(["git", "-C", wt, "apply", f"{d}/patch.diff"], check=True)
    meta = json.load(open(f"{d}/meta.json"))
    cq = meta["confirmed_by_me"]["checks_quick"]
    for c in checks:
        r = subprocess.run(["/verif/check", c, "--no-evidence"], capture_output=True, text=True, env=dict(os.environ, STV_REPO=wt))
        m = re.search(r"mechanism=(\S+)", r.stdout)
        cq[c] = {"exit": r.returncode, "first_mechanism": m.group(1) if m else ""}
        print(sid, c, "exit", r.returncode, cq[c]["first_mechanism"][:100])
    meta["confirmed_by_me"]["caught_by"] = sorted(c for c, v in cq.items() if v["exit"] == 1)
    meta["confirmed_by_me"]["checks_rerun_after_strengthening"] = sorted(set(meta["confirmed_by_me"].get("checks_rerun_after_strengthening", [])) | set(checks))
    json.dump(meta, open(f"{d}/meta.json", "w"), indent=1)
finally:
    subprocess.run(["git", "-C", "/repo", "worktree", "remove", "--force", wt])
