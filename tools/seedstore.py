#!/venv/bin/python
"""tools/seedstore.py <PROP> <k> [checks...]

Full confirmation of one seeded change produced by an independent sub-agent (/tmp/seed/<PROP>.out/patch<k>.diff,
demo<k>.py, meta<k>.json) and, if it is confirmed, storage under /verif/seeded/<PROP>-<k>/:
  * the patch applies to a fresh scratch worktree of /repo HEAD,
  * the demonstration exits non-zero on the changed tree and 0 on the unchanged tree,
  * the repository's pinned test suite passes on the changed tree (every test of BASELINE.stable_pass passes),
  * the verdict of the given checks (default: the property's own check, quick tier) on the changed tree.
All of this is tools/seedcheck.sh (scratch worktree under /tmp, removed afterwards); this script only parses its
summary line and writes patch.diff, demo.py, meta.json.
"""
import json
import os
import re
import shutil
import subprocess
import sys
import time

prop, k = sys.argv[1], sys.argv[2]
checks = sys.argv[3:] or [prop]
base = os.environ.get("SEEDBASE", "/tmp/seed")
src = f"{base}/{prop}.out"
offset = int(os.environ.get("SEED_OFFSET", "0"))
env = dict(os.environ)
env.pop("SKIP_SUITE", None)
t0 = time.time()
out = subprocess.run(["/verif/tools/seedcheck.sh", prop, k] + checks, capture_output=True, text=True, env=env).stdout
line = [l for l in out.splitlines() if l.startswith(f"{prop}/{k}:")]
line = line[-1] if line else out[-300:]
print(line)
m = re.search(r"demo_changed=(\d+) demo_unchanged=(\d+) (?:(load_flaky_on_unchanged_tree_too=\S+) )?(suite_missing=\d+\S*|suite=skipped) checks:(.*)", line)
if not m:
    sys.exit("not confirmed: " + line)
dc, du, flaky, suite, res = int(m.group(1)), int(m.group(2)), m.group(3), m.group(4), m.group(5)
verdicts = {c: (int(rc), mech.strip().replace("mechanism=", "")) for c, rc, mech in re.findall(r"(C\d\d):exit=(\d+)\[([^\]]*)\]", res)}
ok = dc != 0 and du == 0 and suite.startswith("suite_missing=0")
if not ok:
    sys.exit(f"NOT CONFIRMED {prop}/{k}: {line}")
dst = f"/verif/seeded/{prop}-{int(k) + offset}"
os.makedirs(dst, exist_ok=True)
shutil.copy(f"{src}/patch{k}.diff", f"{dst}/patch.diff")
shutil.copy(f"{src}/demo{k}.py", f"{dst}/demo.py")
try:
    author = json.load(open(f"{src}/meta{k}.json"))
except Exception:  # noqa: BLE001
    author = {}
head = subprocess.check_output(["git", "-C", "/repo", "log", "-1", "--format=%h"], text=True).strip()
meta = {
    "property": prop,
    "change": author.get("summary") or author.get("what") or author.get("description"),
    "needs_to_manifest": author.get("needs_to_manifest") or author.get("needs"),
    "files_touched": author.get("files_touched"),
    "origin": "independent sub-agent given only the property text and its own scratch worktree",
    "confirmed_by_me": {
        "against_repo_commit": head,
        "how": "tools/seedcheck.sh in a fresh scratch worktree (git worktree add --detach; git apply patch.diff): "
               "demo.py on the changed tree / on /repo; /venv/bin/python -m pytest (BASELINE command) on the changed tree, "
               "compared with BASELINE.stable_pass; ./check <ID> with STV_REPO=<worktree>",
        "demo_exit_changed_tree": dc,
        "demo_exit_unchanged_tree": du,
        "suite": suite + " (tests of BASELINE.stable_pass that did not pass on the changed tree)"
                 + (f"; {flaky} (10 s per-test timeout; failed on the unchanged tree as well in the same minute, under machine load)" if flaky else ""),
        "checks_quick": {c: {"exit": rc, "first_mechanism": mech} for c, (rc, mech) in verdicts.items()},
        "caught_by": sorted(c for c, (rc, _) in verdicts.items() if rc == 1),
        "wall_s": round(time.time() - t0),
    },
}
json.dump(meta, open(f"{dst}/meta.json", "w"), indent=1)
print("stored", dst, "caught_by", meta["confirmed_by_me"]["caught_by"])
