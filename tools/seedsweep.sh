#!/bin/sh
# tools/seedsweep.sh [jobs] : re-run, for every stored seeded change, the checks that are recorded as catching it, against a
# scratch worktree with the patch applied (STV_REPO); prints one line per change and a summary. Exit 1 if one is no longer caught.
# (Equivalent by hand, in /repo itself: git -C /repo apply seeded/<id>/patch.diff; ./check <ID>; git -C /repo checkout -- .)
cd "$(dirname "$0")/.."
J="${1:-4}"
# SWEEP_PROPS="C01 C03 ..." restricts the sweep to the stored changes of these properties
ls -d seeded/C*/ | { if [ -n "$SWEEP_PROPS" ]; then grep -E "seeded/($(echo $SWEEP_PROPS | tr ' ' '|'))-"; else cat; fi; } | xargs -P "$J" -I{} sh -c '
  D="{}"; D=${D%/}; ID=$(basename "$D"); WT=/tmp/sw_$ID
  CH=$(/venv/bin/python -c "import json;print(\" \".join(json.load(open(\"$D/meta.json\"))[\"confirmed_by_me\"][\"caught_by\"]))")
  git -C /repo worktree add -q --detach "$WT" HEAD || { echo "$ID worktree_failed"; exit 0; }
  if ! git -C "$WT" apply "$PWD/$D/patch.diff" 2>/dev/null; then echo "$ID PATCH_DOES_NOT_APPLY"; git -C /repo worktree remove --force "$WT"; exit 0; fi
  R=""
  for C in $CH; do STV_REPO="$WT" ./check "$C" --no-evidence > "$WT.log" 2>&1; R="$R $C=$?"; done
  rm -f "$WT.log"; git -C /repo worktree remove --force "$WT"
  echo "$ID$R"' | tee /tmp/seedsweep.out
N=$(grep -c . /tmp/seedsweep.out); BAD=$(grep -v "=1" /tmp/seedsweep.out | grep -c .)
MISS=$(grep -E "=(0|2)" /tmp/seedsweep.out | grep -c .)
echo "swept=$N not_caught_or_failed=$((BAD+MISS))"
[ "$((BAD+MISS))" = 0 ]
