#!/venv/bin/python
"""Print the markdown table of DESIGN §9.6 from /verif/seeded/*/meta.json."""
import glob
import json
import os

rows = []
try:
    STR = json.load(open("/verif/seeded/strengthened.json"))
except Exception:  # noqa: BLE001
    STR = {}
for d in sorted(glob.glob("/verif/seeded/*/")):
    try:
        m = json.load(open(d + "meta.json"))
    except Exception:  # noqa: BLE001
        continue
    c = m["confirmed_by_me"]
    ch = (m.get("change") or "").replace("\n", " ").replace("|", "/")
    needs = (m.get("needs_to_manifest") or "").replace("\n", " ").replace("|", "/")
    caught = ", ".join(f"{k} (`{v['first_mechanism'][:70]}`)" for k, v in sorted(c["checks_quick"].items()) if v["exit"] == 1)
    missed = ", ".join(k for k, v in sorted(c["checks_quick"].items()) if v["exit"] != 1)
    rows.append((os.path.basename(d.rstrip("/")), ch[:230] + ("…" if len(ch) > 230 else ""), needs[:200] + ("…" if len(needs) > 200 else ""),
                 caught or "—", missed or "—", STR.get(os.path.basename(d.rstrip("/"))) or ""))
print("| seeded change | what it does | needs to manifest | caught by (quick tier; first mechanism) | run but silent | check strengthened for it |")
print("|---|---|---|---|---|---|")
for r in rows:
    print("| " + " | ".join(r) + " |")
